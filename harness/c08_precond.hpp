// C08: preconditioners apply exactly their defining operator + life-cycle histories with in-place matrix updates.
// Shared body for the scalar (CSR) and the blocked (BCSR<2>, BCSR<3>) harness binaries.
#pragma once
#include <verif.hpp>
#include <c08_common.hpp>
#include <kernel/runtime.hpp>
#include <kernel/lafem/dense_vector.hpp>
#include <kernel/lafem/dense_vector_blocked.hpp>
#include <kernel/lafem/sparse_matrix_csr.hpp>
#include <kernel/lafem/sparse_matrix_bcsr.hpp>
#include <kernel/lafem/none_filter.hpp>
#include <kernel/lafem/unit_filter.hpp>
#include <kernel/lafem/unit_filter_blocked.hpp>
#include <kernel/solver/jacobi_precond.hpp>
#include <kernel/solver/sor_precond.hpp>
#include <kernel/solver/ssor_precond.hpp>
#include <kernel/solver/ilu_precond.hpp>
#include <kernel/solver/polynomial_precond.hpp>
#include <kernel/solver/scale_precond.hpp>
#include <kernel/solver/diagonal_precond.hpp>
#include <kernel/solver/matrix_precond.hpp>
#include <kernel/util/property_map.hpp>

#include <cstring>
#include <limits>
#include <memory>
#include <unordered_set>

namespace c08
{
  using namespace FEAT;
  using Solver::Status;

  // ------------------------------------------------------------------------------------------ type families
  template<int bs_> struct Sys
  {
    static constexpr int bs = bs_;
    typedef LAFEM::SparseMatrixBCSR<double, Index, bs_, bs_> Mat;
    typedef LAFEM::DenseVectorBlocked<double, Index, bs_> Vec;
    typedef LAFEM::NoneFilterBlocked<double, Index, bs_> FNone;
    typedef LAFEM::UnitFilterBlocked<double, Index, bs_> FUnit;
    static double* raw(Vec& v) { return v.template elements<LAFEM::Perspective::pod>(); }
    static const double* raw(const Vec& v) { return v.template elements<LAFEM::Perspective::pod>(); }
    static double* rawval(Mat& m) { return m.template val<LAFEM::Perspective::pod>(); }
    static void fadd(FUnit& f, Index i) { f.add(i, Tiny::Vector<double, bs_>(0.0)); }
  };
  template<> struct Sys<1>
  {
    static constexpr int bs = 1;
    typedef LAFEM::SparseMatrixCSR<double, Index> Mat;
    typedef LAFEM::DenseVector<double, Index> Vec;
    typedef LAFEM::NoneFilter<double, Index> FNone;
    typedef LAFEM::UnitFilter<double, Index> FUnit;
    static double* raw(Vec& v) { return v.elements(); }
    static const double* raw(const Vec& v) { return v.elements(); }
    static double* rawval(Mat& m) { return m.val(); }
    static void fadd(FUnit& f, Index i) { f.add(i, 0.0); }
  };

  // ------------------------------------------------------------------------------------------ value alphabet
  const double DIAG[4] = {1.0, 2.0, 4.0, -2.0};
  /// diagonal alphabet; diagonal variant 2 = all diagonal entries negative
  inline double diag_val(int idx, int dvar) { const double d = DIAG[(idx + (dvar < 2 ? dvar : 0)) % 4]; return dvar == 2 ? -std::fabs(d) : d; }

  /// value of scalar entry (I,J) of matrix version v; off-diagonal blocks are position coded, diagonal blocks are
  /// products of a unit lower and an upper triangle with power-of-two diagonal (inverse exactly representable)
  inline LD entry(int bs, int bi, int bj, int r, int c, int dvar, int v)
  {
    const int I = bi * bs + r, J = bj * bs + c;
    if(bi != bj)
    {
      const LD mag = LD(1 + (I + 3 * J + 5 * v) % 8) / 8.0L;
      return ((I + J + v) & 1) ? -mag : mag;
    }
    if(bs == 1) return diag_val(bi + v, dvar);
    // (L*U)_rc with a unit lower triangle L and an upper triangle U whose diagonal entries are +-powers of two
    auto L = [&](int rr, int k) -> LD
    {
      if(k == rr) return 1.0L;
      if(k > rr) return 0.0L;
      return (((rr + k + bi) & 1) ? -1.0L : 1.0L) * LD(1 + (rr + 2 * k + v + bi) % 3) / 4.0L;
    };
    auto U = [&](int k, int cc) -> LD
    {
      if(k > cc) return 0.0L;
      if(k == cc) return LD(diag_val(bi * bs + k + v, dvar));
      return (((k + cc + v) & 1) ? -1.0L : 1.0L) * LD(1 + (k + cc + bi) % 3) / 4.0L;
    };
    LD s = 0;
    for(int k = 0; k < bs; ++k) s += L(r, k) * U(k, c);
    return s;
  }

  inline BlockDense make_dense(int n, int bs, unsigned pattern, int dvar, int dver, int over)
  {
    BlockDense A; A.init(n, bs);
    int bit = 0;
    for(int bi = 0; bi < n; ++bi) for(int bj = 0; bj < n; ++bj)
    {
      bool on = (bi == bj);
      if(bi != bj) { on = (pattern >> bit) & 1u; ++bit; }
      if(!on) continue;
      A.pat[size_t(bi) * n + bj] = 1;
      for(int r = 0; r < bs; ++r) for(int c = 0; c < bs; ++c) A.at(bi * bs + r, bj * bs + c) = entry(bs, bi, bj, r, c, dvar, bi == bj ? dver : over);
    }
    return A;
  }

  template<int bs>
  typename Sys<bs>::Mat make_feat(const BlockDense& A)
  {
    typedef Sys<bs> S;
    Index nnz = 0;
    for(char ch : A.pat) nnz += ch ? 1 : 0;
    typename S::Mat m(Index(A.n), Index(A.n), nnz);
    auto* rp = m.row_ptr(); auto* ci = m.col_ind(); double* val = S::rawval(m);
    Index k = 0;
    for(int bi = 0; bi < A.n; ++bi)
    {
      rp[bi] = k;
      for(int bj = 0; bj < A.n; ++bj)
      {
        if(!A.p(bi, bj)) continue;
        ci[k] = Index(bj);
        for(int r = 0; r < bs; ++r) for(int c = 0; c < bs; ++c) val[k * bs * bs + r * bs + c] = double(A.at(bi * bs + r, bj * bs + c));
        ++k;
      }
    }
    rp[A.n] = k;
    return m;
  }
  /// in-place value update of an existing FEAT matrix (same layout)
  template<int bs>
  void set_values(typename Sys<bs>::Mat& m, const BlockDense& A)
  {
    double* val = Sys<bs>::rawval(m);
    Index k = 0;
    for(int bi = 0; bi < A.n; ++bi) for(int bj = 0; bj < A.n; ++bj)
    {
      if(!A.p(bi, bj)) continue;
      for(int r = 0; r < bs; ++r) for(int c = 0; c < bs; ++c) val[k * bs * bs + r * bs + c] = double(A.at(bi * bs + r, bj * bs + c));
      ++k;
    }
  }

  // ------------------------------------------------------------------------------------------ configurations
  enum Kind { K_JACOBI = 0, K_SOR, K_SSOR, K_ILU, K_POLY, K_SCALE, K_DIAG, K_MATRIX, K_COUNT };
  const char* const KNAME[] = {"Jacobi", "SOR", "SSOR", "ILU", "Polynomial", "Scale", "Diagonal", "MatrixPrecond"};
  struct PCfg { int kind; int ip; double omega; };

  inline std::vector<PCfg> configs(bool blocked, int n)
  {
    std::vector<PCfg> v;
    const double OM[3] = {1.0, 0.5, 1.5};
    for(double om : OM) v.push_back({K_JACOBI, 0, om});
    for(double om : OM) v.push_back({K_SOR, 0, om});
    for(double om : OM) v.push_back({K_SSOR, 0, om});
    { int last = -1; for(int p : {0, 1, 2, n}) { if(p == last || (p == n && n <= 2)) continue; v.push_back({K_ILU, p, 0.0}); last = p; } }
    if(!blocked)
    {
      for(int m : {1, 2, 3}) for(double om : {1.0, 0.5}) v.push_back({K_POLY, m, om});
      for(double om : {1.0, 0.5, 1.5, 0.0, -2.0}) v.push_back({K_SCALE, 0, om});   // including exactly 0, exactly 1 and a negative factor
      v.push_back({K_DIAG, 0, 0.0});
      v.push_back({K_MATRIX, 0, 0.0});
    }
    return v;
  }

  inline std::string cfg_name(const PCfg& p)
  {
    char b[80];
    if(p.kind == K_ILU) snprintf(b, sizeof b, "ILU(p=%d)", p.ip);
    else if(p.kind == K_POLY) snprintf(b, sizeof b, "Polynomial(m=%d,omega=%g)", p.ip, p.omega);
    else if(p.kind == K_DIAG || p.kind == K_MATRIX) snprintf(b, sizeof b, "%s", KNAME[p.kind]);
    else snprintf(b, sizeof b, "%s(omega=%g)", KNAME[p.kind], p.omega);
    return b;
  }

  /// vector of the DiagonalPrecond for data version v
  inline LD diagvec_entry(int i, int v) { return ((i + v) & 1 ? -1.0L : 1.0L) * LD(1 + (2 * i + 3 * v) % 7) / 4.0L; }

  // ------------------------------------------------------------------------------------------ the oracle
  struct Oracle
  {
    int n, bs, N;
    PCfg cfg;
    // data versions: index v = 2*dver + over with the version dver of the DIAGONAL entries/blocks and over of the off-diagonal ones
    static constexpr int NV = 4;
    BlockDense A[NV];
    RefILU ilu[NV];
    std::vector<char> fixed; // scalar dofs fixed by the unit filter
    bool usable = true;
    const char* why_not = "";

    void init(int n_, int bs_, unsigned pattern, int dvar, const PCfg& c, const std::vector<char>& fixed_blocks)
    {
      n = n_; bs = bs_; N = n * bs; cfg = c;
      fixed.assign(N, 0);
      for(int b = 0; b < n; ++b) if(fixed_blocks[b]) for(int r = 0; r < bs; ++r) fixed[b * bs + r] = 1;
      for(int v = 0; v < NV; ++v)
      {
        A[v] = make_dense(n, bs, pattern, dvar, v / 2, v % 2);
        if(cfg.kind == K_ILU) { ilu[v].factorize(A[v], cfg.ip); if(!ilu[v].ok) { usable = false; why_not = "ILU reference pivot singular or tiny"; } }
        if(cfg.kind == K_JACOBI || cfg.kind == K_POLY) for(int i = 0; i < N; ++i) if(A[v].at(i, i) == 0.0L) { usable = false; why_not = "zero scalar diagonal entry"; }
      }
    }
    /// textbook operator of data version v applied to d, followed by the correction filter
    bool has_omega() const { return cfg.omega > 0.0 && (cfg.kind == K_JACOBI || cfg.kind == K_SOR || cfg.kind == K_SSOR || cfg.kind == K_POLY || cfg.kind == K_SCALE); } // set_omega asserts omega > 0
    /// the second damping parameter used by the set_omega operation of the life-cycle histories (exactly 1 unless that is the first one)
    double alt_omega() const { return cfg.omega == 1.0 ? 0.5 : 1.0; }
    LVec apply(int v, const LVec& d) const { return apply(v, d, cfg.omega); }
    LVec apply(int v, const LVec& d, double omega) const
    {
      LVec y;
      switch(cfg.kind)
      {
      case K_JACOBI: y = ref_jacobi(A[v], d, omega); break;
      case K_SOR: ref_sor(A[v], d, omega, y); break;
      case K_SSOR: ref_ssor(A[v], d, omega, y); break;
      case K_ILU: y = ilu[v].apply(d); break;
      case K_POLY: y = ref_poly(A[v], d, cfg.ip, omega, fixed); break;
      case K_SCALE: y = d; for(auto& x : y) x *= omega; break;
      case K_DIAG: y = d; for(int i = 0; i < N; ++i) y[i] *= diagvec_entry(i, v / 2); break;
      case K_MATRIX: y = matvec(A[v], d); break;
      }
      for(int i = 0; i < N; ++i) if(fixed[i]) y[i] = 0.0L;
      return y;
    }
    bool exact_kind() const { return bs == 1 && (cfg.kind == K_JACOBI || cfg.kind == K_SCALE || cfg.kind == K_DIAG || cfg.kind == K_MATRIX); }
  };

  // ------------------------------------------------------------------------------------------ the system under test
  template<int bs, typename Filter>
  struct Box
  {
    typedef Sys<bs> S;
    typedef typename S::Mat Mat;
    typedef typename S::Vec Vec;
    const Oracle& orc;
    Mat mat;
    Vec diagvec;                 // DiagonalPrecond only
    Filter filter;
    std::shared_ptr<Solver::SolverBase<Vec>> prec;
    int mver = 0;

    template<typename F = Filter>
    static typename std::enable_if<std::is_same<F, typename S::FNone>::value, F>::type make_filter(const Oracle&) { return F(); }
    template<typename F = Filter>
    static typename std::enable_if<!std::is_same<F, typename S::FNone>::value, F>::type make_filter(const Oracle& o)
    {
      F f{Index(o.n)};
      for(int b = o.n - 1; b >= 0; --b) if(o.fixed[b * o.bs]) S::fadd(f, Index(b)); // descending: the filter has to sort its entries itself
      return f;
    }

    explicit Box(const Oracle& o) : orc(o), mat(make_feat<bs>(o.A[0])), diagvec(Index(o.n)), filter(make_filter<>(o))
    {
      set_diagvec(0);
      const PCfg& p = o.cfg;
      build(p, std::integral_constant<bool, bs == 1>());
    }
    void set_diagvec(int v) { double* q = S::raw(diagvec); for(int i = 0; i < orc.N; ++i) q[i] = double(diagvec_entry(i, v)); }

    void build(const PCfg& p, std::true_type) // scalar: all kinds
    {
      switch(p.kind)
      {
      case K_POLY: prec = Solver::new_polynomial_precond(mat, filter, Index(p.ip), p.omega); return;
      case K_SCALE: prec = Solver::new_scale_precond(filter, p.omega); return;
      case K_DIAG: prec = Solver::new_diagonal_precond(diagvec, filter); return;
      case K_MATRIX: prec = Solver::new_matrix_precond(mat, filter); return;
      default: build(p, std::false_type());
      }
    }
    void build(const PCfg& p, std::false_type)
    {
      switch(p.kind)
      {
      case K_JACOBI: prec = Solver::new_jacobi_precond(mat, filter, p.omega); break;
      case K_SOR: prec = Solver::new_sor_precond(PreferredBackend::generic, mat, filter, p.omega); break;
      case K_SSOR: prec = Solver::new_ssor_precond(PreferredBackend::generic, mat, filter, p.omega); break;
      case K_ILU: prec = Solver::new_ilu_precond(PreferredBackend::generic, mat, filter, p.ip); break;
      default: break;
      }
    }
    /// alternative configuration paths: 1 = PropertyMap section constructor (omega / fill_in_param / m as strings),
    /// 2 = ILU: constructed with fill level 0 and configured by set_fill_in_param. Returns false if the kind has no such path.
    bool rebuild(int path)
    {
      const PCfg& p = orc.cfg;
      if(path == 2)
      {
        if(p.kind != K_ILU || p.ip <= 0) return false; // the setter asserts p > 0
        auto q = Solver::new_ilu_precond(PreferredBackend::generic, mat, filter, 0);
        q->set_fill_in_param(p.ip);
        prec = q;
        return true;
      }
      PropertyMap pm;
      char b[64]; snprintf(b, sizeof b, "%.17g", p.omega);
      const String sec("verif");
      switch(p.kind)
      {
      case K_JACOBI: pm.add_entry("omega", b); prec = Solver::new_jacobi_precond(sec, &pm, mat, filter); return true;
#ifdef VERIF_C08_SOR_PM // the PropertyMap constructors of SORPrecond/SSORPrecond do not compile on the pinned tree (proposed fix C08-sor-ssor-propertymap-ctor.patch)
      case K_SOR: pm.add_entry("omega", b); prec = Solver::new_sor_precond(sec, &pm, PreferredBackend::generic, mat, filter); return true;
      case K_SSOR: pm.add_entry("omega", b); prec = Solver::new_ssor_precond(sec, &pm, PreferredBackend::generic, mat, filter); return true;
#endif
      case K_ILU: pm.add_entry("fill_in_param", std::to_string(p.ip)); prec = Solver::new_ilu_precond(sec, &pm, PreferredBackend::generic, mat, filter); return true;
      default: return rebuild_scalar(pm, b, std::integral_constant<bool, bs == 1>());
      }
    }
    bool rebuild_scalar(PropertyMap&, const char*, std::false_type) { return false; }
    bool rebuild_scalar(PropertyMap& pm, const char* b, std::true_type)
    {
      const PCfg& p = orc.cfg;
      const String sec("verif");
      if(p.kind == K_POLY) { pm.add_entry("omega", b); pm.add_entry("m", std::to_string(p.ip)); prec = Solver::new_polynomial_precond(sec, &pm, mat, filter); return true; }
      if(p.kind == K_SCALE) { pm.add_entry("omega", b); prec = Solver::new_scale_precond(sec, &pm, filter); return true; }
      return false;
    }
    /// re-invocation of the parameter setter on the existing object
    void set_omega(double w) { set_omega_impl(w, std::integral_constant<bool, bs == 1>()); }
    void set_omega_impl(double w, std::true_type)
    {
      if(orc.cfg.kind == K_POLY) static_cast<Solver::PolynomialPrecond<Mat, Filter>*>(prec.get())->set_omega(w);
      else if(orc.cfg.kind == K_SCALE) static_cast<Solver::ScalePrecond<Vec, Filter>*>(prec.get())->set_omega(w);
      else set_omega_impl(w, std::false_type());
    }
    void set_omega_impl(double w, std::false_type)
    {
      if(orc.cfg.kind == K_JACOBI) static_cast<Solver::JacobiPrecond<Mat, Filter>*>(prec.get())->set_omega(w);
      else if(orc.cfg.kind == K_SOR) static_cast<Solver::SORPrecond<Mat, Filter>*>(prec.get())->set_omega(w);
      else if(orc.cfg.kind == K_SSOR) static_cast<Solver::SSORPrecond<Mat, Filter>*>(prec.get())->set_omega(w);
    }
    /// in-place update of the values the preconditioner is built on
    void update(int v) { mver = v; set_values<bs>(mat, orc.A[v]); set_diagvec(v / 2); }

    /// applies the preconditioner on d with the output pre-filled by 'prefill'; returns the raw output
    std::vector<double> apply(const LVec& d, double prefill, Status& st, bool& input_unchanged)
    {
      Vec vin(Index(orc.n)), vout(Index(orc.n));
      double* pi = S::raw(vin); double* po = S::raw(vout);
      std::vector<double> din(orc.N);
      for(int i = 0; i < orc.N; ++i) { din[i] = double(d[i]); pi[i] = din[i]; po[i] = prefill; }
      st = prec->apply(vout, vin);
      input_unchanged = (std::memcmp(S::raw(vin), din.data(), sizeof(double) * size_t(orc.N)) == 0);
      return std::vector<double>(po, po + orc.N);
    }

    /// hash of the numeric state of the preconditioner object (implementation state)
    void hash_numeric(verif::Hash& h)
    {
      auto hv = [&](const double* p, size_t k) { for(size_t i = 0; i < k; ++i) { double x = p[i]; if(x == 0.0) x = 0.0; h.pod(x); } };
      const PCfg& p = orc.cfg;
      if(p.kind == K_JACOBI) { auto* q = static_cast<Solver::JacobiPrecond<Mat, Filter>*>(prec.get()); hv(S::raw(q->_inv_diag), size_t(orc.N)); }
      hash_more(h, hv, std::integral_constant<bool, bs == 1>());
      if(p.kind == K_ILU)
      {
        auto* q = static_cast<Solver::ILUPrecond<Mat, Filter>*>(prec.get());
        auto* w = dynamic_cast<Solver::ILUPrecondWithBackend<PreferredBackend::generic, Mat, Filter>*>(q->_impl.get());
        if(!w) { h.str("no-impl"); return; }
        auto& ilu = w->_ilu;
        for(auto x : ilu._row_ptr_l) h.pod(x);
        for(auto x : ilu._col_idx_l) h.pod(x);
        for(auto x : ilu._row_ptr_u) h.pod(x);
        for(auto x : ilu._col_idx_u) h.pod(x);
        hv(reinterpret_cast<const double*>(ilu._data_l.data()), ilu._data_l.size() * size_t(bs * bs));
        hv(reinterpret_cast<const double*>(ilu._data_u.data()), ilu._data_u.size() * size_t(bs * bs));
        hv(reinterpret_cast<const double*>(ilu._data_d.data()), ilu._data_d.size() * size_t(bs * bs));
      }
    }
    template<typename HV> void hash_more(verif::Hash&, HV& hv, std::true_type)
    {
      if(orc.cfg.kind == K_POLY) { auto* q = static_cast<Solver::PolynomialPrecond<Mat, Filter>*>(prec.get()); hv(S::raw(q->_inv_diag), size_t(orc.N)); }
    }
    template<typename HV> void hash_more(verif::Hash&, HV&, std::false_type) {}
  };

  // ------------------------------------------------------------------------------------------ comparisons
  /// check wrapper: every key is reported at most 3 times per worker process so that one defect class cannot exhaust the
  /// failure budget of the runner and hide the others; the repeats are counted
  inline int& chk_seen(const std::string& key) { static std::map<std::string, int> seen; return seen[key]; }
  inline int chk_limit(int dflt) { static int lim = -1; if(lim < 0) { const char* e = std::getenv("VERIF_KEY_REPEAT"); lim = e ? atoi(e) : dflt; } return lim; }
  template<typename F>
  inline bool chk(verif::Ctx& c, bool cond, const std::string& key, F&& msgf)
  {
    if(cond) return true;
    if(c.replaying || ++chk_seen(key) <= chk_limit(3)) c.fail(key, msgf());
    else c.count("suppressed_repeats:" + key);
    return false;
  }
  inline bool chk(verif::Ctx& c, bool cond, const std::string& key, const char* msg) { return chk(c, cond, key, [&]{ return std::string(msg); }); }
  inline bool close(const std::vector<double>& got, const LVec& ref, bool exact, LD rel, std::string& why)
  {
    LD scale = 1.0L;
    for(auto x : ref) scale = std::max(scale, fabsl(x));
    for(size_t i = 0; i < ref.size(); ++i)
    {
      const LD g = got[i];
      bool ok = exact ? (double(ref[i]) == got[i]) : (std::isfinite(got[i]) && fabsl(g - ref[i]) <= rel * scale);
      if(!ok)
      {
        char b[200]; snprintf(b, sizeof b, "entry %zu: got %.17g expected %.17Lg", i, got[i], ref[i]);
        why = b; return false;
      }
    }
    return true;
  }

  inline std::string vec_str(const LVec& d)
  {
    std::string s = "[";
    for(size_t i = 0; i < d.size(); ++i) { char b[40]; snprintf(b, sizeof b, "%s%.6Lg", i ? "," : "", d[i]); s += b; }
    return s + "]";
  }

  inline std::string pat_str(int n, unsigned pattern)
  {
    std::string s; int bit = 0;
    for(int i = 0; i < n; ++i) { for(int j = 0; j < n; ++j) { if(i == j) s += 'D'; else { s += ((pattern >> bit) & 1u) ? 'x' : '.'; ++bit; } } if(i + 1 < n) s += '/'; }
    return s;
  }

  // life-cycle operations
  enum LOp { L_INIT_SYM = 0, L_INIT_NUM, L_APPLY, L_UPDATE_DIAG, L_UPDATE_ALL, L_DONE_NUM, L_DONE_SYM, L_SET_OMEGA, L_COUNT };
  const char* const LNAME[] = {"init_symbolic", "init_numeric", "apply", "update_diagonal_values", "update_all_values", "done_numeric", "done_symbolic", "set_omega(toggle)"};

  inline std::string hist_str(const std::vector<uint8_t>& h) { std::string s; for(auto o : h) { if(!s.empty()) s += ' '; s += LNAME[o]; } return s; }

  // ------------------------------------------------------------------------------------------ ILU core: transposed solves (scalar core only)
  template<typename BoxT> void check_ilu_transposed(verif::Ctx&, BoxT&, const Oracle&, const std::string&, const LVec&, std::false_type) {}
  template<typename BoxT>
  void check_ilu_transposed(verif::Ctx& c, BoxT& box, const Oracle& orc, const std::string& where, const LVec& d, std::true_type)
  {
    typedef typename BoxT::Mat Mat;
    auto* q = static_cast<Solver::ILUPrecond<Mat, typename std::remove_reference<decltype(box.filter)>::type>*>(box.prec.get());
    auto* w = dynamic_cast<Solver::ILUPrecondWithBackend<PreferredBackend::generic, Mat, typename std::remove_reference<decltype(box.filter)>::type>*>(q->_impl.get());
    if(!w) return;
    const int n = orc.n;
    // reference: M = (I+L)(D+U) from the reference factorisation; solve M^T x = d densely
    const RefILU& r = orc.ilu[0];
    std::vector<LD> M(size_t(n) * n, 0.0L), Mt(size_t(n) * n), inv;
    for(int i = 0; i < n; ++i) for(int j = 0; j < n; ++j)
    {
      LD sum = 0;
      for(int k = 0; k <= std::min(i, j); ++k)
      {
        const LD l = (k == i) ? 1.0L : (r.in(i, k) ? r.f[size_t(i) * n + k][0] : 0.0L);
        const LD u = r.in(k, j) ? r.f[size_t(k) * n + j][0] : 0.0L;
        sum += l * u;
      }
      M[size_t(i) * n + j] = sum;
    }
    for(int i = 0; i < n; ++i) for(int j = 0; j < n; ++j) Mt[size_t(i) * n + j] = M[size_t(j) * n + i];
    if(!dense_inverse(n, Mt, inv)) return;
    LVec ref(n, 0.0L); for(int i = 0; i < n; ++i) { LD t = 0; for(int j = 0; j < n; ++j) t += inv[size_t(i) * n + j] * d[j]; ref[i] = t; }
    std::vector<double> b(n), y(n, std::nan("")), x(n);
    for(int i = 0; i < n; ++i) b[i] = double(d[i]);
    w->_ilu.solve_dut(y.data(), b.data());     // separate output array
    x = y; w->_ilu.solve_ilt(x.data(), x.data()); // in place (documented: x and b may be the same array)
    std::string why;
    chk(c, close(x, ref, false, 1e-11L, why), "precond.ilu-transposed-solves scalar", [&]{ return where + ": solve_dut/solve_ilt: " + why; });
    c.count("ilu_transposed_solves");
  }

  // ------------------------------------------------------------------------------------------ one case
  template<int bs, typename Filter>
  void run_case(verif::Ctx& c, const Oracle& orc, const std::string& where, bool lifecycle, int lc_depth)
  {
    const int N = orc.N;
    const PCfg& cfg = orc.cfg;
    const bool exact = orc.exact_kind();
    const LD rel = (cfg.kind == K_ILU || bs > 1) ? 1e-12L : 0x1p-40L;
    const std::string kname = KNAME[cfg.kind];
    const size_t BB = size_t(bs) * size_t(bs);

    // input vectors: unit vectors + one dense position coded vector (+ for the polynomial under a unit filter: projected to the defect space)
    std::vector<LVec> inputs;
    for(int i = 0; i < N; ++i) { LVec e(N, 0.0L); e[i] = 1.0L; inputs.push_back(e); }
    { LVec d(N); for(int i = 0; i < N; ++i) d[i] = ((i & 1) ? -1.0L : 1.0L) * LD(3 + 2 * i) / 4.0L; inputs.push_back(d); }
    bool any_fixed = false; for(char f : orc.fixed) any_fixed = any_fixed || f;
    if(cfg.kind == K_POLY && any_fixed)
      for(auto& d : inputs) for(int i = 0; i < N; ++i) if(orc.fixed[i]) d[i] = 0.0L; // defects of a filtered system vanish on the fixed dofs

    const double NaN = std::numeric_limits<double>::quiet_NaN();
    {
      Box<bs, Filter> box(orc);
      box.prec->init();
      std::vector<std::vector<double>> outs;
      for(size_t k = 0; k < inputs.size(); ++k)
      {
        Status st; bool unch; std::string why;
        std::vector<double> out = box.apply(inputs[k], NaN, st, unch);
        LVec ref = orc.apply(0, inputs[k]);
        chk(c, st == Status::success, "precond.status " + kname, [&]{ return where + " apply did not return success"; });
        chk(c, unch, "precond.input-modified " + kname, [&]{ return where + " input " + vec_str(inputs[k]) + " was modified by apply"; });
        chk(c, close(out, ref, exact, rel, why), "precond.operator " + kname + (bs > 1 ? " blocked" : ""), [&]{ return where + " d=" + vec_str(inputs[k]) + ": " + why; });
        // result independent of the previous content of the output vector
        Status st2; bool u2;
        std::vector<double> out2 = box.apply(inputs[k], 1.0, st2, u2);
        chk(c, std::memcmp(out.data(), out2.data(), sizeof(double) * size_t(N)) == 0, "precond.output-prefill-dependence " + kname,
          [&]{ return where + " d=" + vec_str(inputs[k]) + ": result depends on the previous content of vec_cor"; });
        outs.push_back(out);
        c.count("applies_checked");
      }
      // exact scaling by powers of two far away from 1 (2^-400, 2^+400): P(s d) == s P(d) bitwise (no under/overflow at these sizes)
      for(int e : {-400, 400})
      {
        const LVec& d0 = inputs.back();
        LVec z(N); for(int i = 0; i < N; ++i) z[i] = std::ldexp(d0[i], e);
        Status st; bool unch;
        std::vector<double> out = box.apply(z, NaN, st, unch);
        bool same = true; for(int i = 0; i < N; ++i) if(out[i] != std::ldexp(outs.back()[i], e)) same = false;
        chk(c, same && unch, "precond.power-of-two-scaling " + kname + (bs > 1 ? " blocked" : ""), [&]{ return where + ": P(2^" + std::to_string(e) + " d) != 2^" + std::to_string(e) + " P(d)"; });
        c.count("applies_checked");
      }
      // linearity P(2x - y/2) = 2 Px - Py/2 on two of the inputs (dyadic coefficients)
      if(inputs.size() >= 2)
      {
        const LVec& x = inputs.back(); const LVec& y = inputs.front();
        LVec z(N); for(int i = 0; i < N; ++i) z[i] = 2.0L * x[i] - 0.5L * y[i];
        Status st; bool unch; std::string why;
        std::vector<double> out = box.apply(z, NaN, st, unch);
        LVec comb(N); for(int i = 0; i < N; ++i) comb[i] = 2.0L * LD(outs.back()[i]) - 0.5L * LD(outs.front()[i]);
        chk(c, close(out, comb, exact, rel * 4, why), "precond.linearity " + kname, [&]{ return where + ": P(2x-y/2) != 2Px-Py/2: " + why; });
      }
      // ILU: the factors reproduce A on the level-p pattern; complete factorisations invert A
      if(cfg.kind == K_ILU)
      {
        typedef typename Sys<bs>::Mat Mat;
        auto* q = static_cast<Solver::ILUPrecond<Mat, Filter>*>(box.prec.get());
        auto* w = dynamic_cast<Solver::ILUPrecondWithBackend<PreferredBackend::generic, Mat, Filter>*>(q->_impl.get());
        if(chk(c, w != nullptr, "precond.ilu-impl", "generic ILU implementation not selected"))
        {
          auto& ilu = w->_ilu;
          const int n = orc.n;
          // pattern of the implementation
          std::vector<char> ip(size_t(n) * n, 0);
          std::vector<Blk> F(size_t(n) * n);
          bool sorted = true;
          for(int i = 0; i < n; ++i)
          {
            ip[size_t(i) * n + i] = 1;
            Blk dinv(BB); const double* pd = reinterpret_cast<const double*>(&ilu._data_d[size_t(i)]);
            for(int t = 0; t < bs * bs; ++t) dinv[size_t(t)] = pd[t];
            Blk dd; dense_inverse(bs, dinv, dd); F[size_t(i) * n + i] = dd; // the implementation stores D^-1
            for(Index j = ilu._row_ptr_l[size_t(i)]; j < ilu._row_ptr_l[size_t(i) + 1]; ++j)
            {
              const int col = int(ilu._col_idx_l[j]);
              if(j > ilu._row_ptr_l[size_t(i)] && ilu._col_idx_l[j - 1] >= ilu._col_idx_l[j]) sorted = false;
              if(col >= i) { sorted = false; continue; }
              ip[size_t(i) * n + col] = 1;
              Blk b(BB); const double* p = reinterpret_cast<const double*>(&ilu._data_l[j]); for(int t = 0; t < bs * bs; ++t) b[size_t(t)] = p[t];
              F[size_t(i) * n + col] = b;
            }
            for(Index j = ilu._row_ptr_u[size_t(i)]; j < ilu._row_ptr_u[size_t(i) + 1]; ++j)
            {
              const int col = int(ilu._col_idx_u[j]);
              if(j > ilu._row_ptr_u[size_t(i)] && ilu._col_idx_u[j - 1] >= ilu._col_idx_u[j]) sorted = false;
              if(col <= i || col >= n) { sorted = false; continue; }
              ip[size_t(i) * n + col] = 1;
              Blk b(BB); const double* p = reinterpret_cast<const double*>(&ilu._data_u[j]); for(int t = 0; t < bs * bs; ++t) b[size_t(t)] = p[t];
              F[size_t(i) * n + col] = b;
            }
          }
          chk(c, sorted, "precond.ilu-structure " + kname, [&]{ return where + ": L/U column indices not strictly sorted / out of range"; });
          bool same_pat = true;
          for(int i = 0; i < n; ++i) for(int j = 0; j < n; ++j) if((ip[size_t(i) * n + j] != 0) != orc.ilu[0].in(i, j)) same_pat = false;
          chk(c, same_pat, "precond.ilu-pattern " + kname, [&]{ return where + ": level-" + std::to_string(cfg.ip) + " pattern of the symbolic factorisation differs from the level-of-fill definition"; });
          if(sorted && same_pat)
          {
            // ((I+L)(D+U))_ij = a_ij for all (i,j) in the pattern
            bool match = true; std::string why;
            for(int i = 0; i < n && match; ++i) for(int j = 0; j < n && match; ++j)
            {
              if(!ip[size_t(i) * n + j]) continue;
              Blk s(BB, 0.0L);
              for(int k = 0; k <= std::min(i, j); ++k)
              {
                // (I+L)_ik (D+U)_kj
                if(k == i) { if(!ip[size_t(k) * n + j]) continue; for(size_t t = 0; t < s.size(); ++t) s[t] += F[size_t(k) * n + j][t]; }
                else { if(!ip[size_t(i) * n + k] || !ip[size_t(k) * n + j]) continue; Blk pr = blk_mul(bs, F[size_t(i) * n + k], F[size_t(k) * n + j]); for(size_t t = 0; t < s.size(); ++t) s[t] += pr[t]; }
              }
              Blk a = get_block(orc.A[0], i, j);
              for(size_t t = 0; t < s.size(); ++t) if(fabsl(s[t] - a[t]) > 1e-11L * std::max<LD>(1.0L, fabsl(a[t])))
              { match = false; char b[200]; snprintf(b, sizeof b, "block (%d,%d) entry %zu: (LU)=%.15Lg a=%.15Lg", i, j, t, s[t], a[t]); why = b; break; }
            }
            chk(c, match, std::string("precond.ilu-LU-matches-A-on-pattern ") + (bs > 1 ? "blocked" : "scalar"), [&]{ return where + ": " + why; });
          }
          if(orc.ilu[0].complete)
          {
            c.count("ilu_complete_factorisations");
            LVec x;
            for(size_t k = 0; k < inputs.size(); ++k)
            {
              if(!ref_solve(orc.A[0], inputs[k], x)) continue;
              for(int i = 0; i < N; ++i) if(orc.fixed[i]) x[i] = 0.0L;
              std::string why;
              chk(c, close(outs[k], x, false, 1e-9L, why), std::string("precond.ilu-complete-is-inverse ") + (bs > 1 ? "blocked" : "scalar"),
                [&]{ return where + " d=" + vec_str(inputs[k]) + ": complete factorisation but apply != A^-1 d: " + why; });
            }
          }
        }
      }
      // the documented solver name
      chk(c, std::string(box.prec->name()) == KNAME[cfg.kind], "precond.name " + kname, [&]{ return where + ": name() = " + std::string(box.prec->name()); });
      // ILU: the transposed triangular solves of the factorisation core ( (D+U)^T y = d, (I+L)^T x = y  <=>  x = ((I+L)(D+U))^-T d )
      if(cfg.kind == K_ILU) check_ilu_transposed(c, box, orc, where, inputs.back(), std::integral_constant<bool, bs == 1>());
      box.prec->done();
      // alternative configuration paths give the same preconditioner: PropertyMap section constructor, ILU::set_fill_in_param
      for(int path = 1; path <= 2; ++path)
      {
        Box<bs, Filter> b2(orc);
        if(!b2.rebuild(path)) continue;
        b2.prec->init();
        Status st; bool unch;
        std::vector<double> out = b2.apply(inputs.back(), NaN, st, unch);
        chk(c, std::memcmp(out.data(), outs.back().data(), sizeof(double) * size_t(N)) == 0, std::string("precond.configuration-path ") + (path == 1 ? "PropertyMap " : "set_fill_in_param ") + kname,
          [&]{ return where + ": differs from the object configured by constructor arguments"; });
        b2.prec->done();
        c.count("configuration_path_objects");
      }
    }

    // ---------------------------------------------------------------- life-cycle histories (E3)
    if(!lifecycle) return;
    const LVec& probe = inputs.back();
    LVec refs[Oracle::NV][2];
    for(int v = 0; v < Oracle::NV; ++v) { refs[v][0] = orc.apply(v, probe); refs[v][1] = orc.has_omega() ? orc.apply(v, probe, orc.alt_omega()) : refs[v][0]; }

    struct Key { uint64_t a, b; bool operator==(const Key& o) const { return a == o.a && b == o.b; } };
    struct KeyHash { size_t operator()(const Key& k) const { return size_t(k.a ^ (k.b * 0x9e3779b97f4a7c15ull)); } };

    // app_sym / app_num: was there an apply since the last init_symbolic / init_numeric (capped at 1)? These model-level bits are part of
    // the state key: for a correct implementation apply leaves no trace in the object, so without them every history with an apply BEFORE
    // a value update would be pruned as 'already visited' and a cache filled by the first apply could hide behind the canonical key.
    // om: index of the damping parameter currently set (0: constructor value, 1: alternative), nom: the one at the last init_numeric
    // ninit: number of init_numeric calls since the last init_symbolic / done_numeric, capped at 2 (re-run without done_numeric)
    struct Model { int phase = 0, mver = 0, nver = -1, app_sym = 0, app_num = 0, om = 0, nom = -1, ninit = 0; };
    const bool with_omega = orc.has_omega();
    auto legal = [with_omega](const Model& m, int op)
    {
      switch(op)
      {
      case L_INIT_SYM: return m.phase == 0;
      case L_INIT_NUM: return m.phase >= 1;
      case L_APPLY: return m.phase == 2;
      case L_UPDATE_DIAG: case L_UPDATE_ALL: return true;
      case L_DONE_NUM: return m.phase == 2;
      case L_DONE_SYM: return m.phase == 1;
      case L_SET_OMEGA: return with_omega;
      }
      return false;
    };

    // replay of a history on fresh objects, validated step by step (the last step is the new one)
    auto replay = [&](const std::vector<uint8_t>& hist, Model& m) -> Key
    {
      Box<bs, Filter> box(orc);
      m = Model();
      for(size_t i = 0; i < hist.size(); ++i)
      {
        const int op = hist[i];
        const bool last = (i + 1 == hist.size());
        switch(op)
        {
        case L_INIT_SYM: box.prec->init_symbolic(); m.phase = 1; m.app_sym = 0; m.app_num = 0; m.ninit = 0; break;
        case L_INIT_NUM: box.prec->init_numeric(); m.phase = 2; m.nver = m.mver; m.nom = m.om; m.app_num = 0; m.ninit = std::min(m.ninit + 1, 2); break;
        case L_UPDATE_DIAG: m.mver = m.mver ^ 2; box.update(m.mver); break;          // diagonal entries/blocks only
        case L_UPDATE_ALL: m.mver = m.mver ^ 3; box.update(m.mver); break;           // diagonal and off-diagonal values
        case L_DONE_NUM: box.prec->done_numeric(); m.phase = 1; m.nver = -1; m.nom = -1; m.ninit = 0; break;
        case L_SET_OMEGA: m.om ^= 1; box.set_omega(m.om ? orc.alt_omega() : orc.cfg.omega); break;
        case L_DONE_SYM: box.prec->done_symbolic(); m.phase = 0; break;
        case L_APPLY:
          {
            Status st; bool unch;
            std::vector<double> out = box.apply(probe, NaN, st, unch);
            m.app_sym = 1; m.app_num = 1;
            if(m.nver == m.mver && m.nom == m.om)   // values and parameter as of the last init_numeric: the result is specified
            {
              if(last)
              {
                std::string why;
                chk(c, close(out, refs[m.mver][m.om], exact, rel, why), "precond.lifecycle-apply " + kname + (bs > 1 ? " blocked" : ""),
                  [&]{ return where + " history: " + hist_str(hist) + ": apply does not reflect the current matrix values (version " + std::to_string(m.mver) + "): " + why; });
                chk(c, unch && st == Status::success, "precond.lifecycle-status " + kname, [&]{ return where + " history: " + hist_str(hist); });
              }
            }
            else if(last) c.count("stale_applies_executed_unchecked");
          }
          break;
        }
        c.count("transitions");
      }
      verif::Hash h1, h2; h1.pod(m.phase).pod(m.mver).pod(m.nver).pod(m.app_sym).pod(m.app_num).pod(m.om).pod(m.nom).pod(m.ninit); h2.pod(m.ninit).pod(m.nom).pod(m.om).pod(m.app_num).pod(m.app_sym).pod(m.nver).pod(m.mver).pod(m.phase).str("x");
      // implementation state: matrix values + numeric data of the preconditioner
      { const double* v = Sys<bs>::rawval(box.mat); size_t cnt = size_t(box.mat.used_elements()) * size_t(bs * bs); h1.bytes(v, cnt * sizeof(double)); h2.bytes(v, cnt * sizeof(double)); }
      if(m.phase == 2) { box.hash_numeric(h1); box.hash_numeric(h2); }
      // leave the objects in a clean state (destructors do not call done)
      if(m.phase == 2) box.prec->done_numeric();
      if(m.phase >= 1) box.prec->done_symbolic();
      return Key{h1.get(), h2.get()};
    };

    std::unordered_set<Key, KeyHash> seen;
    std::vector<std::vector<uint8_t>> frontier, next;
    std::vector<Model> fm, nm;
    { std::vector<uint8_t> h0; Model m; Key k = replay(h0, m); seen.insert(k); frontier.push_back(h0); fm.push_back(m); c.count("states"); }
    int d = 0;
    for(d = 1; d <= lc_depth && !frontier.empty(); ++d)
    {
      next.clear(); nm.clear();
      for(size_t fi = 0; fi < frontier.size(); ++fi)
      {
        for(int op = 0; op < L_COUNT; ++op)
        {
          if(!legal(fm[fi], op)) { c.count("illegal_ops_not_generated"); continue; }
          std::vector<uint8_t> h2(frontier[fi]); h2.push_back(uint8_t(op));
          Model m; Key k = replay(h2, m);
          c.count("traces_validated_against_impl");
          if(seen.insert(k).second) { next.push_back(h2); nm.push_back(m); c.count("states"); }
        }
      }
      frontier.swap(next); fm.swap(nm);
      c.maxi("depth", uint64_t(d));
    }
    if(frontier.empty()) c.count("lifecycle_fixpoints_reached"); else c.count("lifecycle_cut_at_depth_bound");
  }

  // ------------------------------------------------------------------------------------------ enumeration
  template<int bs, typename StrideFn>
  void enumerate(verif::Ctx& c, int nmax_quick, int nmax_thorough, StrideFn stride_of)
  {
    typedef Sys<bs> S;
    const int nmax = c.thorough ? nmax_thorough : nmax_quick;
    const int lc_depth = c.thorough ? 16 : 14;
    for(int n = 1; n <= nmax; ++n)
    {
      const unsigned npat = 1u << unsigned(n * (n - 1));
      // unit filter sets (block indices): none, {0}, {n-1}, {1} (n>=3), {0,n-1} (n>=3)
      std::vector<std::vector<char>> fsets;
      fsets.push_back(std::vector<char>(n, 0));
      if(n >= 2) { std::vector<char> f(n, 0); f[0] = 1; fsets.push_back(f); f.assign(n, 0); f[n - 1] = 1; fsets.push_back(f); }
      if(n >= 3) { std::vector<char> f(n, 0); f[1] = 1; fsets.push_back(f); f.assign(n, 0); f[0] = 1; f[n - 1] = 1; fsets.push_back(f); }
      const std::vector<PCfg> cfgs = configs(bs > 1, n);
      for(unsigned pat = 0; pat < npat; ++pat)
      {
        // sub-sampled sizes: the structurally distinguished patterns (empty, full, tridiagonal, lower, upper) and every stride-th one
        {
          const unsigned stride = stride_of(n, c.thorough);
          if(stride > 1)
          {
            const unsigned full = npat - 1;
            unsigned tri = 0, lower = 0, upper = 0; int bit = 0;
            for(int i = 0; i < n; ++i) for(int j = 0; j < n; ++j) { if(i == j) continue; if(std::abs(i - j) == 1) tri |= 1u << bit; if(j < i) lower |= 1u << bit; else upper |= 1u << bit; ++bit; }
            if(!(pat == 0 || pat == full || pat == tri || pat == lower || pat == upper || pat % stride == 5 % stride)) continue;
          }
        }
        for(int dvar = 0; dvar < ((c.thorough || n <= 3) ? 3 : 2); ++dvar)
        for(size_t ci = 0; ci < cfgs.size(); ++ci)
        for(size_t fi = 0; fi < fsets.size(); ++fi)
        {
          if(!c.want()) continue;
          const PCfg& cfg = cfgs[ci];
          Oracle orc; orc.init(n, bs, pat, dvar, cfg, fsets[fi]);
          std::string fstr; for(int b = 0; b < n; ++b) if(fsets[fi][b]) fstr += (fstr.empty() ? "" : ",") + std::to_string(b);
          const std::string where = std::string(bs > 1 ? "BCSR<" + std::to_string(bs) + ">" : "CSR") + " n=" + std::to_string(n) + " pattern=" + pat_str(n, pat)
            + " diagvar=" + std::to_string(dvar) + " " + cfg_name(cfg) + " filter=" + (fi == 0 ? std::string("None") : "Unit{" + fstr + "}");
          c.desc([&]{ return where; });
          if(!orc.usable) { c.excluded(orc.why_not); continue; }
          // non-trivial: the operator is not a multiple of the identity on this input (n>=2 with an off-diagonal entry, or a non-unit diagonal)
          if(pat != 0 || cfg.kind <= K_ILU) c.nontrivial(verif::Hash().pod(bs).pod(n).pod(pat).pod(dvar).pod(ci).pod(fi).get());
          c.outcome(std::string(KNAME[cfg.kind]) + (fi ? "+unit" : "+none"));
          // the life-cycle behaviour hardly depends on the pattern: quick explores it for all patterns of n <= 3 and every 8th of larger n
          const bool lifecycle = ((fi == 0) || (fi == 1 && dvar == 0)) && (n <= 3 || pat == npat - 1 || (c.thorough ? (n <= 4 || pat % 4 == 1) : (pat % 8 == 5)));
          if(fi == 0) run_case<bs, typename S::FNone>(c, orc, where, lifecycle, lc_depth);
          else run_case<bs, typename S::FUnit>(c, orc, where, lifecycle, lc_depth);
        }
      }
    }
  }

  inline void fill_spec(verif::Spec& spec, const char* harness, const char* what)
  {
    spec.property = "C08"; spec.harness = harness;
    spec.rule = std::string("case = (") + what + " size n, off-diagonal block pattern (all 2^(n(n-1))), diagonal variant, preconditioner kind+parameter, correction filter None/Unit(S)); "
      "per case: apply on every unit vector and one dense vector vs the long double textbook operator, NaN/1 pre-filled output, input unchanged, linearity, "
      "ILU factors vs level-of-fill definition; then BFS over all legal life-cycle histories {init_symbolic, init_numeric, apply, in-place update of the diagonal values, in-place update of all values, done_numeric, done_symbolic, set_omega} "
      "replayed on fresh objects and deduplicated by (matrix values, preconditioner numeric arrays, phase, version at the last init_numeric, 'apply since last init_symbolic', 'apply since last init_numeric'). Non-trivial: matrix has an off-diagonal entry or the operator uses the diagonal";
    spec.assumptions = {
      "oracle: own long double block-dense algebra (c08_common.hpp); ILU(p) reference = level-of-fill (Saad Alg. 10.5) + block IKJ with L_ik = A_ik U_kk^-1",
      "matrices have a full stored diagonal and sorted column indices (documented precondition of SOR/SSOR/ILU); cases whose reference ILU pivot is singular/tiny are excluded and counted",
      "Polynomial with a unit filter is checked on defects that vanish on the filtered dofs (the range of filter_def), against the Neumann polynomial of the free sub-system",
      "apply on a stale preconditioner (values updated, init_numeric not yet re-run) is executed but its result is unspecified and not compared",
      "generic backend only (no CUDA/MKL back ends, no dummy back-end classes); Schwarz/Uzawa/Vanka/AmaVanka are covered by c08_uzawa / c08_vanka / c08_amavanka",
      "configuration paths: constructor arguments, PropertyMap section (Jacobi, ILU, Polynomial, Scale) and ILU::set_fill_in_param must give bit-identical objects; the PropertyMap "
      "constructors of SORPrecond/SSORPrecond do not compile when instantiated on the pinned tree (no behaviour to check; branch disabled by VERIF_C08_SOR_PM, observation reported)",
      "out of scope: name()/bytes()/timing accessors beyond name(), statistics, printing"};
    spec.deadline_quick_s = 500; spec.deadline_thorough_s = 2400;
  }
} // namespace c08
