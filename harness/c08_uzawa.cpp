// C08: Solver::UzawaPrecond (diagonal / lower / upper / full) with exact sub-solvers and Solver::SchwarzPrecond on one process,
// against dense oracles, plus the life-cycle BFS of c08_block.hpp.
//
// Uzawa oracle (class documentation; P_A(d) = F_cor(A^-1 d) and P_S(d) = S^-1 d are the two sub-solvers, F_def the velocity defect filter):
//   diagonal: u = P_A f_u,  p = P_S f_p
//   lower   : u = P_A f_u,  p = P_S (f_p - D u)
//   upper   : p = P_S f_p,  u = P_A F_def(f_u - B p)
//   full    : u' = P_A f_u, p = P_S (f_p - D u'), u = P_A F_def(f_u - B p)      (= the block LU solve  [I 0; D A^-1 I] [A B; 0 S] x = f;
//             the class documentation prints the lower factor with the sign of its inverse. With S = -D A^-1 B exactly this is K^-1 f,
//             which is checked as a documentation-independent identity.)
// The sub-solvers are complete ILU factorisations (ILU(p = n): exact inverses up to rounding; they are themselves checked by c08_precond).
// Schwarz oracle on one process: local solver (Jacobi / SSOR / ILU(p), oracles of c08_common.hpp), synchronisation = identity, correction filter.
#include <c08_block.hpp>
#include <c08_precond.hpp>
#include <kernel/solver/uzawa_precond.hpp>
#include <kernel/solver/schwarz_precond.hpp>
#include <kernel/global/gate.hpp>
#include <kernel/global/vector.hpp>
#include <kernel/global/filter.hpp>
#include <kernel/lafem/vector_mirror.hpp>
#include <kernel/lafem/tuple_mirror.hpp>
#include <kernel/global/matrix.hpp>
#include <kernel/util/property_map.hpp>

using namespace c08b;

namespace
{
  const Solver::UzawaType UT[4] = {Solver::UzawaType::diagonal, Solver::UzawaType::lower, Solver::UzawaType::upper, Solver::UzawaType::full};
  const char* const UN[4] = {"diagonal", "lower", "upper", "full"};

  /// the pressure matrix S of data version ver (negative definite like a Schur complement); svar 1: exactly -D A^-1 B
  std::vector<LD> make_s(const Saddle& S, int ver, int svar)
  {
    const int np = S.np, nv = S.nv, N = S.N;
    std::vector<LD> s(size_t(np) * np, 0.0L);
    if(svar == 0)
    {
      const int dver = ver / 2, over = ver % 2;
      for(int i = 0; i < np; ++i) for(int j = 0; j < np; ++j)
        s[size_t(i) * np + j] = (i == j) ? -LD(3 + (i + dver) % 2) : (((i + j + over) & 1) ? -1.0L : 1.0L) * LD(1 + (i + 2 * j + over) % 4) / 8.0L;
      return s;
    }
    std::vector<LD> a(size_t(nv) * nv), ai;
    for(int i = 0; i < nv; ++i) for(int j = 0; j < nv; ++j) a[size_t(i) * nv + j] = S.K.at(ver, i, j);
    dense_inverse(nv, a, ai);
    for(int i = 0; i < np; ++i) for(int j = 0; j < np; ++j)
    {
      LD t = 0;
      for(int k = 0; k < nv; ++k) for(int l = 0; l < nv; ++l) t += S.K.at(ver, nv + i, k) * ai[size_t(k) * nv + l] * S.K.at(ver, l, nv + j);
      s[size_t(i) * np + j] = -t;
    }
    return s;
  }

  bool oracle_uzawa(const Saddle& S, int ver, int svar, int type, const std::vector<char>& fixed, const LVec& f, LVec& x)
  {
    const int nv = S.nv, np = S.np, N = S.N;
    std::vector<LD> a(size_t(nv) * nv), ai, si;
    for(int i = 0; i < nv; ++i) for(int j = 0; j < nv; ++j) a[size_t(i) * nv + j] = S.K.at(ver, i, j);
    if(!dense_inverse(nv, a, ai)) return false;
    if(!dense_inverse(np, make_s(S, ver, svar), si)) return false;
    { LD mx = 0; for(auto q : si) mx = std::max(mx, fabsl(q)); for(auto q : ai) mx = std::max(mx, fabsl(q)); if(mx > 1e5L) return false; }
    auto PA = [&](const LVec& d) { LVec u(nv); for(int i = 0; i < nv; ++i) { LD t = 0; for(int j = 0; j < nv; ++j) t += ai[size_t(i) * nv + j] * d[j]; u[i] = fixed[i] ? 0.0L : t; } return u; };
    auto PS = [&](const LVec& d) { LVec p(np); for(int i = 0; i < np; ++i) { LD t = 0; for(int j = 0; j < np; ++j) t += si[size_t(i) * np + j] * d[j]; p[i] = t; } return p; };
    LVec fu(f.begin(), f.begin() + nv), fp(f.begin() + nv, f.end());
    auto minusD = [&](const LVec& u) { LVec g(fp); for(int i = 0; i < np; ++i) for(int j = 0; j < nv; ++j) g[i] -= S.K.at(ver, nv + i, j) * u[j]; return g; };
    auto minusB = [&](const LVec& p) { LVec g(fu); for(int i = 0; i < nv; ++i) { for(int j = 0; j < np; ++j) g[i] -= S.K.at(ver, i, nv + j) * p[j]; if(fixed[i]) g[i] = 0.0L; } return g; };
    LVec u, p;
    switch(type)
    {
    case 0: u = PA(fu); p = PS(fp); break;
    case 1: u = PA(fu); p = PS(minusD(u)); break;
    case 2: p = PS(fp); u = PA(minusB(p)); break;
    default: u = PA(fu); p = PS(minusD(u)); u = PA(minusB(p)); break;
    }
    x.assign(N, 0.0L);
    for(int i = 0; i < nv; ++i) x[i] = u[i];
    for(int i = 0; i < np; ++i) x[nv + i] = p[i];
    return true;
  }

  template<int dim>
  struct UzawaBox : public SaddleBox<dim>
  {
    typedef SaddleBox<dim> Base;
    typedef LAFEM::SparseMatrixCSR<double, Index> MatS;
    MatS mat_s;
    int svar;
    std::shared_ptr<Solver::SolverBase<typename Base::VecP>> solver_s;
    bool auto_init_s = true;
    UzawaBox(const Saddle& s, const std::vector<char>& fixed_vb, int svar_) : Base(s, fixed_vb), svar(svar_)
    {
      const Index np = Index(s.np);
      mat_s = MatS(np, np, np * np);
      Index q = 0;
      for(int i = 0; i < s.np; ++i) { mat_s.row_ptr()[i] = q; for(int j = 0; j < s.np; ++j) mat_s.col_ind()[q++] = Index(j); }
      mat_s.row_ptr()[s.np] = q;
      set_s(0);
    }
    void set_s(int ver) { const std::vector<LD> s = make_s(this->S, ver, svar); for(size_t i = 0; i < s.size(); ++i) mat_s.val()[i] = double(s[i]); }
  };

  template<int dim>
  void uzawa_cases(verif::Ctx& c, int lc_depth)
  {
    typedef UzawaBox<dim> Box;
    typedef typename Box::Base::MatA MatA; typedef typename Box::Base::MatB MatB; typedef typename Box::Base::MatD MatD;
    typedef typename Box::Base::FilV FilV; typedef typename Box::Base::FilP FilP;
    const std::vector<Layout> lays = layouts();
    for(size_t li = 0; li < lays.size(); ++li)
    for(int avar = 0; avar < (c.thorough ? 3 : 2); ++avar)
    for(int type = 0; type < 4; ++type) for(int svar = 0; svar < 2; ++svar) for(int autos = 0; autos < 2; ++autos) for(int fix = 0; fix < 2; ++fix)
    {
      if(!c.want()) continue;
      const Layout& L = lays[li];
      auto S = std::make_shared<Saddle>(); S->build(L, dim, avar);
      std::vector<char> fixed_vb(L.nvb, 0); if(fix) fixed_vb[0] = 1;
      const std::vector<char> fixed = fixed_scalar(*S, fixed_vb);
      const std::string kname = std::string("Uzawa ") + UN[type] + (dim > 1 ? " BCSR2" : " CSR");
      const std::string where = kname + " layout=[" + L.name + "] avar=" + std::to_string(avar) + " S=" + (svar ? "-D A^-1 B" : "generic") + " auto_init_s=" + std::to_string(autos)
        + " filter=" + (fix ? "Unit{0}" : "none");
      c.desc([&]{ return where; });
      c.nontrivial(verif::Hash().pod(dim).pod(li).pod(avar).pod(type).pod(svar).pod(autos).pod(fix).get());
      c.outcome(std::string("Uzawa ") + UN[type]);
      Factory make = [=]() -> Live
      {
        auto box = std::make_shared<Box>(*S, fixed_vb, svar);
        box->auto_init_s = (autos != 0);
        // exact sub-solvers: complete ILU factorisations of A (with the velocity filter) and of S
        auto solver_a = Solver::new_ilu_precond(PreferredBackend::generic, box->mat.block_a(), box->filter.template at<0>(), S->nvb);
        box->solver_s = Solver::new_ilu_precond(PreferredBackend::generic, box->mat_s, box->filter.template at<1>(), S->np);
        box->prec = Solver::new_uzawa_precond<MatA, MatB, MatD, FilV, FilP>(box->mat.block_a(), box->mat.block_b(), box->mat.block_d(),
          box->filter.template at<0>(), box->filter.template at<1>(), solver_a, box->solver_s, UT[type], autos != 0);
        Live l = box->live(box);
        Box* b = box.get();
        // auto_init_s = false: the caller is responsible for the S-solver
        l.init_symbolic = [b]{ if(!b->auto_init_s) b->solver_s->init_symbolic(); b->prec->init_symbolic(); };
        l.init_numeric = [b]{ if(!b->auto_init_s) b->solver_s->init_numeric(); b->prec->init_numeric(); };
        l.done_numeric = [b]{ b->prec->done_numeric(); if(!b->auto_init_s) b->solver_s->done_numeric(); };
        l.done_symbolic = [b]{ b->prec->done_symbolic(); if(!b->auto_init_s) b->solver_s->done_symbolic(); };
        l.update = [b](int v){ b->set_values(v); b->set_s(v); };
        l.hash_state = [b](verif::Hash& h){ b->hash_values(h); h.bytes(b->mat_s.val(), sizeof(double) * size_t(b->mat_s.used_elements())); };
        l.keep = std::shared_ptr<void>(new std::pair<std::shared_ptr<Saddle>, std::shared_ptr<Box>>(S, box), [](void* p){ delete static_cast<std::pair<std::shared_ptr<Saddle>, std::shared_ptr<Box>>*>(p); });
        return l;
      };
      OracleFn orc = [=](int v, const LVec& d, LVec& out) { return oracle_uzawa(*S, v, svar, type, fixed, d, out); };
      // full Uzawa with the exact Schur complement inverts the saddle point matrix (no filter)
      if(type == 3 && svar == 1 && !fix)
      {
        LVec d(S->N), x1, x2; for(int i = 0; i < S->N; ++i) d[i] = ((i & 1) ? -1.0L : 1.0L) * LD(3 + 2 * i) / 4.0L;
        std::vector<LD> ki;
        if(oracle_uzawa(*S, 0, 1, 3, fixed, d, x1) && dense_inverse(S->N, S->K.k[0], ki))
        {
          LD err = 0, nrm = 1;
          for(int i = 0; i < S->N; ++i) { LD t = 0; for(int j = 0; j < S->N; ++j) t += ki[size_t(i) * S->N + j] * d[j]; err = std::max(err, fabsl(t - x1[i])); nrm = std::max(nrm, fabsl(t)); }
          c08b::chk(c, err <= 1e-12L * nrm, "block.oracle-selfcheck Uzawa full with exact Schur complement != K^-1", [&]{ return where; });
        }
      }
      run_subject(c, S->N, kname, where, make, orc, true, lc_depth, 1e-9L);
    }
  }

  // ------------------------------------------------------------------------------------------ Uzawa specialisation for Global:: containers (one process)
  struct GUzawaBox
  {
    typedef LAFEM::SparseMatrixCSR<double, Index> M;
    typedef LAFEM::DenseVector<double, Index> V;
    typedef LAFEM::VectorMirror<double, Index> Mir;
    typedef LAFEM::TupleVector<V, V> TV;
    typedef LAFEM::TupleMirror<Mir, Mir> TMir;
    typedef LAFEM::UnitFilter<double, Index> FV;
    typedef LAFEM::NoneFilter<double, Index> FP;
    typedef Global::Gate<V, Mir> Gate1;
    typedef Global::Gate<TV, TMir> GateS;
    typedef Global::Matrix<M, Mir, Mir> GM;
    typedef Global::Vector<V, Mir> GV1;
    typedef Global::Vector<TV, TMir> GVS;
    const Saddle& S; int svar;
    Dist::Comm comm; Gate1 gate_v, gate_p; GateS gate_s;
    GM ga, gb, gd; M mat_s;
    Global::Filter<FV, Mir> gfv; Global::Filter<FP, Mir> gfp;
    FP lnone;
    std::shared_ptr<Solver::SolverBase<GV1>> solver_s;
    std::shared_ptr<Solver::SolverBase<GVS>> prec;
    bool auto_init_s = true;
    static FV mkf(const Saddle& s, const std::vector<char>& fx) { FV f{Index(s.nvb)}; for(int i = s.nvb - 1; i >= 0; --i) if(fx[i]) f.add(Index(i), 0.0); return f; }
    GUzawaBox(const Saddle& s, const std::vector<char>& fixed_vb, int svar_) : S(s), svar(svar_), comm(Dist::Comm::world()), gate_v(comm), gate_p(comm), gate_s(comm),
      ga(&gate_v, &gate_v, SaddleBox<1>::make_block<M>(s.nvb, s.nvb, s.pa)), gb(&gate_v, &gate_p, SaddleBox<1>::make_block<M>(s.nvb, s.np, s.pb)),
      gd(&gate_p, &gate_v, SaddleBox<1>::make_block<M>(s.np, s.nvb, s.pd)), gfv(mkf(s, fixed_vb)), gfp()
    {
      gate_v.compile(V(Index(s.nvb))); gate_p.compile(V(Index(s.np))); gate_s.compile(TV(V(Index(s.nvb)), V(Index(s.np))));
      const Index np = Index(s.np);
      mat_s = M(np, np, np * np);
      Index q = 0;
      for(int i = 0; i < s.np; ++i) { mat_s.row_ptr()[i] = q; for(int j = 0; j < s.np; ++j) mat_s.col_ind()[q++] = Index(j); }
      mat_s.row_ptr()[s.np] = q;
      set_values(0);
    }
    void set_values(int ver)
    {
      const int nv = S.nv, N = S.N; const std::vector<LD>& k = S.K.k[ver];
      auto fill = [&](M& m, int roff, int coff) { for(Index i = 0; i < m.rows(); ++i) for(Index p2 = m.row_ptr()[i]; p2 < m.row_ptr()[i + 1]; ++p2) m.val()[p2] = double(k[size_t(roff + int(i)) * N + coff + int(m.col_ind()[p2])]); };
      fill(ga.local(), 0, 0); fill(gb.local(), 0, nv); fill(gd.local(), nv, 0);
      const std::vector<LD> sm = make_s(S, ver, svar); for(size_t i = 0; i < sm.size(); ++i) mat_s.val()[i] = double(sm[i]);
    }
    std::vector<double> apply(const LVec& d, double prefill, Status& st, bool& unch)
    {
      GVS vin(&gate_s, V(Index(S.nvb)), V(Index(S.np))), vout(&gate_s, V(Index(S.nvb)), V(Index(S.np)));
      std::vector<double> din(S.N);
      for(int i = 0; i < S.N; ++i) din[i] = double(d[i]);
      double* iv = vin.local().at<0>().elements(); double* ip = vin.local().at<1>().elements();
      double* ov = vout.local().at<0>().elements(); double* op = vout.local().at<1>().elements();
      for(int i = 0; i < S.nv; ++i) { iv[i] = din[i]; ov[i] = prefill; }
      for(int i = 0; i < S.np; ++i) { ip[i] = din[S.nv + i]; op[i] = prefill; }
      st = prec->apply(vout, vin);
      unch = (std::memcmp(iv, din.data(), sizeof(double) * size_t(S.nv)) == 0) && (std::memcmp(ip, din.data() + S.nv, sizeof(double) * size_t(S.np)) == 0);
      std::vector<double> out(S.N);
      for(int i = 0; i < S.nv; ++i) out[i] = ov[i];
      for(int i = 0; i < S.np; ++i) out[S.nv + i] = op[i];
      return out;
    }
  };

  void uzawa_global_cases(verif::Ctx& c, int lc_depth)
  {
    typedef GUzawaBox Box;
    const std::vector<Layout> lays = layouts();
    for(size_t li = 0; li < lays.size(); ++li)
    for(int type = 0; type < 4; ++type) for(int svar = 0; svar < 2; ++svar) for(int autos = 0; autos < 2; ++autos) for(int fix = 0; fix < 2; ++fix)
    {
      if(!c.want()) continue;
      const Layout& L = lays[li];
      auto S = std::make_shared<Saddle>(); S->build(L, 1, int(li % 2));
      std::vector<char> fixed_vb(L.nvb, 0); if(fix) fixed_vb[0] = 1;
      const std::vector<char> fixed = fixed_scalar(*S, fixed_vb);
      const std::string kname = std::string("Uzawa ") + UN[type] + " Global::";
      const std::string where = kname + " layout=[" + L.name + "] S=" + (svar ? "-D A^-1 B" : "generic") + " auto_init_s=" + std::to_string(autos) + " filter=" + (fix ? "Unit{0}" : "none");
      c.desc([&]{ return where; });
      c.nontrivial(verif::Hash().str("guzawa").pod(li).pod(type).pod(svar).pod(autos).pod(fix).get());
      c.outcome(std::string("Uzawa Global:: ") + UN[type]);
      Factory make = [=]() -> Live
      {
        auto box = std::make_shared<Box>(*S, fixed_vb, svar);
        box->auto_init_s = (autos != 0);
        // exact sub-solvers: Schwarz(complete ILU) on the local blocks; the global velocity filter is applied by Schwarz
        auto solver_a = Solver::new_schwarz_precond(Solver::new_ilu_precond(PreferredBackend::generic, box->ga.local(), box->lnone, S->nvb), box->gfv);
        box->solver_s = Solver::new_schwarz_precond(Solver::new_ilu_precond(PreferredBackend::generic, box->mat_s, box->lnone, S->np), box->gfp);
        box->prec = Solver::new_uzawa_precond(box->ga, box->gb, box->gd, box->gfv, box->gfp,
          std::shared_ptr<Solver::SolverBase<Box::GV1>>(solver_a), box->solver_s, UT[type], autos != 0);
        Live l; Box* b = box.get();
        l.keep = std::shared_ptr<void>(new std::pair<std::shared_ptr<Saddle>, std::shared_ptr<Box>>(S, box), [](void* p){ delete static_cast<std::pair<std::shared_ptr<Saddle>, std::shared_ptr<Box>>*>(p); });
        l.init_symbolic = [b]{ if(!b->auto_init_s) b->solver_s->init_symbolic(); b->prec->init_symbolic(); };
        l.init_numeric = [b]{ if(!b->auto_init_s) b->solver_s->init_numeric(); b->prec->init_numeric(); };
        l.done_numeric = [b]{ b->prec->done_numeric(); if(!b->auto_init_s) b->solver_s->done_numeric(); };
        l.done_symbolic = [b]{ b->prec->done_symbolic(); if(!b->auto_init_s) b->solver_s->done_symbolic(); };
        l.update = [b](int v){ b->set_values(v); };
        l.apply = [b](const LVec& d, double pf, Status& st, bool& u){ return b->apply(d, pf, st, u); };
        l.hash_state = [b](verif::Hash& h){ for(auto* m : {&b->ga.local(), &b->gb.local(), &b->gd.local(), &b->mat_s}) h.bytes(m->val(), sizeof(double) * size_t(m->used_elements())); };
        return l;
      };
      OracleFn orc = [=](int v, const LVec& d, LVec& out) { return oracle_uzawa(*S, v, svar, type, fixed, d, out); };
      run_subject(c, S->N, kname, where, make, orc, true, lc_depth, 1e-9L);
    }
  }

  // ------------------------------------------------------------------------------------------ Schwarz
  struct SchwarzBox
  {
    typedef LAFEM::SparseMatrixCSR<double, Index> Mat;
    typedef LAFEM::DenseVector<double, Index> Vec;
    typedef LAFEM::NoneFilter<double, Index> LFil;
    typedef LAFEM::UnitFilter<double, Index> Fil;
    typedef LAFEM::VectorMirror<double, Index> Mirror;
    typedef Global::Gate<Vec, Mirror> GateT;
    typedef Global::Vector<Vec, Mirror> GVec;
    typedef Global::Filter<Fil, Mirror> GFil;
    const c08::Oracle& orc;
    Dist::Comm comm; GateT gate;
    Mat mat; LFil lfil; GFil gfil;
    std::shared_ptr<Solver::SolverBase<GVec>> prec;
    static Fil mkfil(const c08::Oracle& o) { Fil f{Index(o.n)}; for(int i = o.n - 1; i >= 0; --i) if(o.fixed[i]) f.add(Index(i), 0.0); return f; }
    explicit SchwarzBox(const c08::Oracle& o) : orc(o), comm(Dist::Comm::world()), gate(comm), mat(c08::make_feat<1>(o.A[0])), gfil(mkfil(o))
    {
      gate.compile(Vec(Index(o.n)));
    }
    std::vector<double> apply(const LVec& d, double prefill, Status& st, bool& unch)
    {
      const int N = orc.n;
      GVec vin(&gate, Index(N)), vout(&gate, Index(N));
      std::vector<double> din(N);
      for(int i = 0; i < N; ++i) { din[i] = double(d[i]); vin.local().elements()[i] = din[i]; vout.local().elements()[i] = prefill; }
      st = prec->apply(vout, vin);
      unch = std::memcmp(vin.local().elements(), din.data(), sizeof(double) * size_t(N)) == 0;
      return std::vector<double>(vout.local().elements(), vout.local().elements() + N);
    }
  };

  /// a local 'solver' that fails: writes 2*def and returns Status::aborted (to observe ignore_status)
  struct FailingLocal : public Solver::SolverBase<LAFEM::DenseVector<double, Index>>
  {
    typedef LAFEM::DenseVector<double, Index> V;
    virtual String name() const override { return "FailingLocal"; }
    virtual Status apply(V& cor, const V& def) override { cor.scale(def, 2.0); return Status::aborted; }
  };

  /// ignore_status (by setter and from a PropertyMap section): a failing local solver gives Status::aborted, or - if ignored - success
  /// with the synchronised and filtered correction
  void schwarz_status_cases(verif::Ctx& c)
  {
    using namespace c08;
    for(int path = 0; path < 2; ++path) for(int ign = 0; ign < 2; ++ign) for(int word = 0; word < 2; ++word)
    {
      if(!c.want()) continue;
      const std::string where = std::string("Schwarz(failing local solver) ignore_status=") + std::to_string(ign) + (path ? " via PropertyMap" : " via set_ignore_status") + (word ? " (true/false)" : " (yes/no)");
      c.desc([&]{ return where; });
      c.nontrivial(verif::Hash().str("schwarz-status").pod(path).pod(ign).pod(word).get());
      std::vector<char> fb(3, 0); fb[1] = 1;
      Oracle orc; orc.init(3, 1, 0x3fu, 0, PCfg{K_JACOBI, 0, 1.0}, fb);
      SchwarzBox box(orc);
      auto local = std::make_shared<FailingLocal>();
      if(path)
      {
        PropertyMap pm; pm.add_entry("ignore_status", word ? (ign ? "true" : "false") : (ign ? "yes" : "no"));
        box.prec = Solver::new_schwarz_precond("verif", &pm, std::shared_ptr<Solver::SolverBase<SchwarzBox::Vec>>(local), box.gfil);
      }
      else
      {
        auto sw = Solver::new_schwarz_precond(std::shared_ptr<Solver::SolverBase<SchwarzBox::Vec>>(local), box.gfil);
        sw->set_ignore_status(ign != 0);
        box.prec = sw;
      }
      box.prec->init();
      LVec d{1.0L, -0.5L, 0.25L};
      Status st; bool unch;
      std::vector<double> out = box.apply(d, std::nan(""), st, unch);
      if(ign) c08b::chk(c, st == Status::success && out[0] == 2.0 && out[1] == 0.0 && out[2] == 0.5 && unch, "block.schwarz-ignore_status", [&]{ return where + ": expected success and the filtered correction"; });
      else c08b::chk(c, st == Status::aborted && unch, "block.schwarz-ignore_status", [&]{ return where + ": expected Status::aborted"; });
      box.prec->done();
    }
  }

  void schwarz_cases(verif::Ctx& c, int lc_depth)
  {
    using namespace c08;
    for(int n = 2; n <= 4; ++n)
    {
      const unsigned npat = 1u << unsigned(n * (n - 1));
      std::vector<PCfg> cfgs;
      for(double om : {1.0, 0.5}) { cfgs.push_back({K_JACOBI, 0, om}); cfgs.push_back({K_SSOR, 0, om}); }
      for(int p : {0, n}) cfgs.push_back({K_ILU, p, 0.0});
      for(unsigned pat = 0; pat < npat; ++pat)
      {
        if(n == 3 && !(pat % 5 == 3 || pat == npat - 1)) continue;
        if(n == 4 && !(pat % (c.thorough ? 97u : 397u) == 5 || pat == npat - 1)) continue;
        for(size_t ci = 0; ci < cfgs.size(); ++ci) for(int fix = 0; fix < 3; ++fix) for(int ign = 0; ign < 2; ++ign)
        {
          if(!c.want()) continue;
          std::vector<char> fb(n, 0); if(fix == 1) fb[0] = 1; if(fix == 2) { fb[n - 1] = 1; fb[0] = 1; }
          auto orc = std::make_shared<Oracle>(); orc->init(n, 1, pat, 0, cfgs[ci], fb);
          const std::string kname = std::string("Schwarz(") + KNAME[cfgs[ci].kind] + ")";
          const std::string where = kname + " " + cfg_name(cfgs[ci]) + " n=" + std::to_string(n) + " pattern=" + pat_str(n, pat) + " global filter fix=" + std::to_string(fix) + " ignore_status=" + std::to_string(ign);
          c.desc([&]{ return where; });
          if(!orc->usable) { c.excluded(orc->why_not); continue; }
          c.nontrivial(verif::Hash().str("schwarz").pod(n).pod(pat).pod(ci).pod(fix).pod(ign).get());
          c.outcome(kname);
          const PCfg cfg = cfgs[ci];
          Factory make = [=]() -> Live
          {
            auto box = std::make_shared<SchwarzBox>(*orc);
            std::shared_ptr<Solver::SolverBase<SchwarzBox::Vec>> local;
            if(cfg.kind == K_JACOBI) local = Solver::new_jacobi_precond(box->mat, box->lfil, cfg.omega);
            else if(cfg.kind == K_SSOR) local = Solver::new_ssor_precond(PreferredBackend::generic, box->mat, box->lfil, cfg.omega);
            else local = Solver::new_ilu_precond(PreferredBackend::generic, box->mat, box->lfil, cfg.ip);
            // configuration of ignore_status: by the setter (even configurations) or from a PropertyMap section (odd ones)
            if(ci & 1u)
            {
              PropertyMap pm; pm.add_entry("ignore_status", ign ? "yes" : "no");
              box->prec = Solver::new_schwarz_precond("verif", &pm, local, box->gfil);
            }
            else
            {
              auto sw = Solver::new_schwarz_precond(local, box->gfil);
              sw->set_ignore_status(ign != 0);
              box->prec = sw;
            }
            Live l; SchwarzBox* b = box.get();
            l.keep = std::shared_ptr<void>(new std::pair<std::shared_ptr<Oracle>, std::shared_ptr<SchwarzBox>>(orc, box), [](void* p){ delete static_cast<std::pair<std::shared_ptr<Oracle>, std::shared_ptr<SchwarzBox>>*>(p); });
            l.init_symbolic = [b]{ b->prec->init_symbolic(); }; l.init_numeric = [b]{ b->prec->init_numeric(); };
            l.done_numeric = [b]{ b->prec->done_numeric(); }; l.done_symbolic = [b]{ b->prec->done_symbolic(); };
            l.update = [b](int v){ c08::set_values<1>(b->mat, b->orc.A[v]); };
            l.apply = [b](const LVec& d, double pf, Status& st, bool& u){ return b->apply(d, pf, st, u); };
            l.hash_state = [b](verif::Hash& h){ h.bytes(b->mat.val(), sizeof(double) * size_t(b->mat.used_elements())); };
            return l;
          };
          // the oracle of c08_precond.hpp applies the (global) correction filter after the textbook operator
          OracleFn of = [=](int v, const LVec& d, LVec& out) { out = orc->apply(v, d); return true; };
          run_subject(c, n, kname, where, make, of, true, lc_depth, 1e-10L);
        }
      }
    }
  }
}

int main(int argc, char** argv)
{
  Runtime::ScopeGuard guard(argc, argv);
  verif::Spec spec; spec.property = "C08"; spec.harness = "c08_uzawa";
  spec.rule = "Uzawa: case = (velocity block size {1,2}, element layout, A-diagonal variant, Uzawa type (4), S {generic, exact Schur complement}, auto_init_s, velocity unit filter) with complete-ILU "
    "sub-solvers vs the block formulas of the class documentation in dense long double. Schwarz: case = (n, off-diagonal pattern, local solver Jacobi/SSOR/ILU(p) + parameter, global unit filter set, "
    "ignore_status by setter / PropertyMap) on Global:: containers over one process; Uzawa additionally in its specialisation for Global::Matrix/Filter/Vector (scalar blocks, Schwarz(ILU) sub-solvers) vs the textbook operator of the local solver followed by the filter. Both: all unit vectors + a dense vector, output prefill, input "
    "unchanged, linearity, life-cycle BFS of c08_block.hpp (value updates change A, B, D and S)";
  spec.bounds_quick = "Uzawa: 7 layouts x 2 diagonal variants x 4 types x 2 S x auto_init_s {0,1} x filter {none, Unit{0}} x block size {1,2}; Schwarz: n 2..4 (all 4 patterns of n=2, every 5th of n=3, "
    "every 397th of n=4 + full), Jacobi/SSOR omega {1,1/2}, ILU p {0,n}, 3 filter sets, ignore_status {0,1}; life-cycle depth 12";
  spec.bounds_thorough = "Uzawa additionally the all-negative A-diagonal; Schwarz every 97th pattern of n=4; life-cycle depth 14";
  spec.assumptions = {"the sub-solvers of Uzawa are complete ILU factorisations = exact inverses up to rounding (checked separately by c08_precond); tolerance 1e-9",
    "UzawaType::full is compared with the block LU solve implemented by the code; the class documentation prints the lower factor with the opposite sign of D A^-1 (documentation typo, see harness header)",
    "Schwarz on one process: the synchronisation of the correction is the identity"};
  spec.deadline_quick_s = 500; spec.deadline_thorough_s = 2400;
  return verif::run(spec, argc, argv, [&](verif::Ctx& c)
  {
    const int lc_depth = c.thorough ? 14 : 12;
    uzawa_cases<1>(c, lc_depth);
    uzawa_cases<2>(c, lc_depth);
    uzawa_global_cases(c, lc_depth);
    schwarz_cases(c, lc_depth);
    schwarz_status_cases(c);
  });
}
