// c17_common.hpp -- shared pieces of the C17 (threaded domain assembly) harnesses:
// tiny mesh builders, the configuration enumeration, the instrumented assembly job and the
// harness-side cell adjacency oracle.
#pragma once
#include <kernel/runtime.hpp>
#include <kernel/geometry/conformal_mesh.hpp>
#include <kernel/trafo/standard/mapping.hpp>
#include <kernel/assembly/domain_assembler.hpp>

#include <memory>
#include <set>
#include <sstream>
#include <string>
#include <vector>

namespace c17
{
  using namespace FEAT;
  typedef Geometry::ConformalMesh<Shape::Hypercube<1>> Mesh1;
  typedef Geometry::ConformalMesh<Shape::Hypercube<2>> Mesh2;
  typedef Geometry::ConformalMesh<Shape::Simplex<2>> MeshT;

  /// 1D chain of n cells on [0,n/8] (dyadic coordinates)
  inline std::unique_ptr<Mesh1> make_chain(Index n)
  {
    Index ne[] = {n + 1, n};
    std::unique_ptr<Mesh1> m(new Mesh1(ne));
    auto& vtx = m->get_vertex_set();
    for(Index i = 0; i <= n; ++i) vtx[i][0] = double(i) / 8.0;
    auto& idx = m->template get_index_set<1, 0>();
    for(Index i = 0; i < n; ++i) { idx[i][0] = i; idx[i][1] = i + 1; }
    m->fill_neighbors();
    return m;
  }

  /// nx x ny quads, cell (i,j) has index j*nx+i; dyadic coordinates
  inline std::unique_ptr<Mesh2> make_quads(Index nx, Index ny)
  {
    Index ne[] = {(nx + 1) * (ny + 1), 0, nx * ny};
    std::unique_ptr<Mesh2> m(new Mesh2(ne));
    auto& vtx = m->get_vertex_set();
    for(Index j = 0; j <= ny; ++j) for(Index i = 0; i <= nx; ++i)
    { vtx[j * (nx + 1) + i][0] = double(i) / 4.0; vtx[j * (nx + 1) + i][1] = double(j) / 4.0; }
    auto& idx = m->template get_index_set<2, 0>();
    for(Index j = 0; j < ny; ++j) for(Index i = 0; i < nx; ++i)
    {
      Index c = j * nx + i;
      idx[c][0] = j * (nx + 1) + i; idx[c][1] = j * (nx + 1) + i + 1;
      idx[c][2] = (j + 1) * (nx + 1) + i; idx[c][3] = (j + 1) * (nx + 1) + i + 1;
    }
    m->deduct_topology_from_top();
    return m;
  }

  /// nx x ny quads with a scrambled cell numbering (cell (i,j) gets index perm[j*nx+i], perm = multiplication by a unit mod n, reversed)
  inline std::unique_ptr<Mesh2> make_quads_scrambled(Index nx, Index ny)
  {
    Index ne[] = {(nx + 1) * (ny + 1), 0, nx * ny};
    std::unique_ptr<Mesh2> m(new Mesh2(ne));
    auto& vtx = m->get_vertex_set();
    for(Index j = 0; j <= ny; ++j) for(Index i = 0; i <= nx; ++i)
    { vtx[j * (nx + 1) + i][0] = double(i) / 4.0; vtx[j * (nx + 1) + i][1] = double(j) / 4.0; }
    const Index n = nx * ny;
    Index mul = 1;
    for(Index k = n / 2 + 1; k < n; ++k) { Index a = k, b = n; while(b) { Index t = a % b; a = b; b = t; } if(a == 1) { mul = k; break; } }
    auto& idx = m->template get_index_set<2, 0>();
    for(Index j = 0; j < ny; ++j) for(Index i = 0; i < nx; ++i)
    {
      const Index c = n - 1 - ((j * nx + i) * mul) % n;
      idx[c][0] = j * (nx + 1) + i; idx[c][1] = j * (nx + 1) + i + 1;
      idx[c][2] = (j + 1) * (nx + 1) + i; idx[c][3] = (j + 1) * (nx + 1) + i + 1;
    }
    m->deduct_topology_from_top();
    return m;
  }

  /// fan of n triangles around vertex 0 (open fan: consecutive triangles share an edge, all share vertex 0)
  inline std::unique_ptr<MeshT> make_fan(Index n)
  {
    Index ne[] = {n + 2, 0, n};
    std::unique_ptr<MeshT> m(new MeshT(ne));
    auto& vtx = m->get_vertex_set();
    vtx[0][0] = 0.0; vtx[0][1] = 0.0;
    // points on a polygonal arc with dyadic coordinates (positively oriented triangles)
    static const double px[] = {1, 1, 0.5, 0, -0.5, -1, -1, -1, -0.5, 0};
    static const double py[] = {0, 0.5, 1, 1, 1, 0.5, 0, -0.5, -1, -1};
    for(Index i = 0; i <= n; ++i) { vtx[i + 1][0] = px[i]; vtx[i + 1][1] = py[i]; }
    auto& idx = m->template get_index_set<2, 0>();
    for(Index i = 0; i < n; ++i) { idx[i][0] = 0; idx[i][1] = i + 1; idx[i][2] = i + 2; }
    m->deduct_topology_from_top();
    return m;
  }

  /// harness-side vertex adjacency of cells, computed from the vertices-at-cell lists (independent of
  /// the Adjacency::Graph machinery used by the assembler)
  template<typename Mesh_>
  std::vector<std::vector<char>> cell_adjacency(const Mesh_& mesh)
  {
    const auto& idx = mesh.template get_index_set<Mesh_::shape_dim, 0>();
    const Index n = mesh.get_num_elements();
    const int nv = idx.get_num_indices();
    std::vector<std::vector<char>> adj(n, std::vector<char>(n, 0));
    for(Index a = 0; a < n; ++a) for(Index b = 0; b < n; ++b)
    {
      bool sh = false;
      for(int i = 0; i < nv; ++i) for(int j = 0; j < nv; ++j) if(idx[a][i] == idx[b][j]) sh = true;
      adj[a][b] = sh ? 1 : 0;
    }
    return adj;
  }

  inline const char* strategy_name(Assembly::ThreadingStrategy s)
  {
    switch(s)
    {
    case Assembly::ThreadingStrategy::automatic: return "automatic";
    case Assembly::ThreadingStrategy::single: return "single";
    case Assembly::ThreadingStrategy::layered: return "layered";
    case Assembly::ThreadingStrategy::layered_sorted: return "layered_sorted";
    case Assembly::ThreadingStrategy::colored: return "colored";
    default: return "?";
    }
  }

  static const Assembly::ThreadingStrategy all_strategies[] = {
    Assembly::ThreadingStrategy::automatic, Assembly::ThreadingStrategy::single, Assembly::ThreadingStrategy::layered,
    Assembly::ThreadingStrategy::layered_sorted, Assembly::ThreadingStrategy::colored};

  /// a mesh configuration: kind 0 = chain(n), 1 = quads(nx,ny), 2 = fan(n); subset = bit mask of the
  /// selected cells (all ones = compile_all_elements is used instead of add_element)
  struct MeshCfg
  {
    int kind; Index a, b; uint64_t subset; bool all;
    Index cells() const { return (kind == 1 || kind == 3) ? a * b : a; }
    std::string str() const
    {
      std::ostringstream o;
      if(kind == 0) o << "chain(" << a << ")"; else if(kind == 1) o << "quads(" << a << "x" << b << ")"; else if(kind == 3) o << "quads-scrambled(" << a << "x" << b << ")"; else o << "fan(" << a << ")";
      if(!all) { o << " subset={"; bool f = true; for(Index i = 0; i < cells(); ++i) if((subset >> i) & 1u) { o << (f ? "" : ",") << i; f = false; } o << "}"; }
      return o.str();
    }
  };

  /// Check the static structure the assembler computed (no threads are run).
  /// Returns an empty string if all invariants hold, else a description.
  template<typename Asm_, typename Mesh_>
  std::string check_static(const Asm_& da, const Mesh_& mesh, const std::vector<Index>& selected)
  {
    std::ostringstream err;
    const auto adj = cell_adjacency(mesh);
    // element indices are a permutation of the selected cells
    {
      std::multiset<Index> a(da._element_indices.begin(), da._element_indices.end()), b(selected.begin(), selected.end());
      if(a != b) { err << "element list is not a permutation of the selected cells; "; return err.str(); }
    }
    const std::size_t nw = da._num_worker_threads;
    const auto strat = da._strategy;
    if(nw == 1) err << "exactly one worker thread configured (no work function supports that); ";
    if(nw >= 1 && (strat == Assembly::ThreadingStrategy::layered || strat == Assembly::ThreadingStrategy::layered_sorted))
    {
      const auto& le = da._layer_elements;
      const auto& tl = da._thread_layers;
      if(le.empty() || le.front() != 0 || le.back() != Index(da._element_indices.size())) err << "layer offsets do not span the element list; ";
      for(std::size_t i = 0; i + 1 < le.size(); ++i) if(le[i] > le[i + 1]) err << "layer offsets not monotone; ";
      // cells in layers i and j >= i+2 are never vertex-adjacent
      std::vector<Index> layer_of(da._element_indices.size());
      for(std::size_t l = 0; l + 1 < le.size(); ++l) for(Index k = le[l]; k < le[l + 1]; ++k) layer_of[k] = Index(l);
      for(std::size_t p = 0; p < da._element_indices.size(); ++p) for(std::size_t q = 0; q < da._element_indices.size(); ++q)
        if(layer_of[q] >= layer_of[p] + 2 && adj[da._element_indices[p]][da._element_indices[q]])
        { err << "cells " << da._element_indices[p] << "," << da._element_indices[q] << " are adjacent but in layers " << layer_of[p] << "," << layer_of[q] << "; "; }
      if(tl.size() != nw + 1) err << "thread layer vector has " << tl.size() << " entries for " << nw << " workers; ";
      else
      {
        if(tl.front() != 0) err << "first thread layer is not 0; ";
        if(tl.back() + 1 != Index(le.size())) err << "last thread layer is not the number of layers; ";
        for(std::size_t i = 0; i + 1 < tl.size(); ++i) if(tl[i + 1] < tl[i] + 2) err << "thread " << i + 1 << " has fewer than two layers; ";
      }
    }
    if(nw >= 1 && strat == Assembly::ThreadingStrategy::colored)
    {
      const auto& ce = da._color_elements;
      if(ce.empty() || ce.front() != 0 || ce.back() != Index(da._element_indices.size())) err << "colour offsets do not span the element list; ";
      for(std::size_t c = 0; c + 1 < ce.size(); ++c)
        for(Index p = ce[c]; p < ce[c + 1]; ++p) for(Index q = p + 1; q < ce[c + 1]; ++q)
          if(adj[da._element_indices[p]][da._element_indices[q]]) err << "cells " << da._element_indices[p] << "," << da._element_indices[q] << " share a vertex and colour " << c << "; ";
    }
    return err.str();
  }
} // namespace c17
