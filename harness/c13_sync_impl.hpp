// c13_sync_impl.hpp -- C13 Tier 1 harness body (see c13_core.hpp for the oracle). The including .cpp defines
// C13_FAMILY (0 = quadrilateral meshes, 1 = triangle meshes, 2 = hexahedral meshes) and C13_HARNESS (its name).
//
// case = (base mesh, joint refinements, number of ranks P, surjective cell->rank assignment, space, vector kind).
// Inside a case, for both send modes and for every operation: ALL answer sequences of MPI_Waitany (= the full
// product of the arrival orders of all ranks) are executed for the single-synchronisation operations, all
// executions with <= D deviations for the PCG run; every execution is compared with the base-level oracle and
// its bitwise digest is recorded (on exact data exactly one digest may occur).
#include "c13_ops.hpp"
#include <mpi_explore.hpp>
#include <explore.hpp>
#include <vsched.h>
#include <sched.h>

namespace c13
{
  // -----------------------------------------------------------------------------------------------
  // the oracle
  // -----------------------------------------------------------------------------------------------
  struct Verdict
  {
    std::string what;          // empty = ok
    void fail(const std::string& m) { if(what.size() < 1500) what += m + "; "; }
    bool ok() const { return what.empty(); }
  };

  inline bool same_bits(double a, double b) { return std::memcmp(&a, &b, sizeof(double)) == 0 || (a == 0.0 && b == 0.0); }

  struct P1Result { std::vector<double> x; std::vector<double> scal; };

  template<typename W_>
  P1Result solve_base(const W_& w)
  {
    typedef typename W_::Vec Vec;
    constexpr int bs = W_::bs;
    P1Result r;
    auto solver = Solver::new_pcg(w.A_base, w.filt_base, Solver::new_jacobi_precond(w.A_base, w.filt_base));
    solver->set_plot_mode(Solver::PlotMode::none);
    solver->set_max_iter(Index(pcg_iters));
    solver->set_tol_rel(1e-12); solver->set_tol_abs(1e-300);
    solver->init();
    Vec b(w.B.N), x(w.B.N);
    for(Index i = 0; i < w.B.N; ++i) for(int c = 0; c < bs; ++c) raw(b)[size_t(i) * size_t(bs) + size_t(c)] = val_v(i, c);
    x.format(0.0);
    w.filt_base.filter_sol(x);
    const Solver::Status st = solver->correct(x, b);
    r.x.assign(raw(x), raw(x) + size_t(w.B.N) * size_t(bs));
    r.scal = {double(int(st)), double(solver->get_num_iter()), solver->get_def_initial(), solver->get_def_final()};
    solver->done();
    return r;
  }

  template<typename W_>
  void judge(const W_& w, int op, const std::vector<RankOut>& outs, const P1Result& p1, Verdict& V)
  {
    constexpr int bs = W_::bs;
    const BaseData& B = w.B;
    const int P = w.cfg.P;
    const double eps = 2.220446049250313e-16;
    auto at = [&](int r, int slot, Index j, int c) { return outs[size_t(r)].vec[slot][size_t(j) * size_t(bs) + size_t(c)]; };
    auto name = [&](int r, Index j, int c) { std::ostringstream o; o << "rank " << r << " local dof " << j << " (base dof " << w.ranks[size_t(r)]->p2b[size_t(j)] << ", component " << c << ", shared by " << B.count[size_t(w.ranks[size_t(r)]->p2b[size_t(j)])] << " patches)"; return o.str(); };
    // compares a result vector entry-wise; exact = bit equality required, otherwise tol * magnitude
    auto cmp_vec_n = [&](int slot, const char* label, bool exact, int nc, auto want /* (rank, base dof, comp) -> long double */, auto mag)
    {
      for(int r = 0; r < P; ++r)
      {
        const auto& R = *w.ranks[size_t(r)];
        if(outs[size_t(r)].vec[slot].size() != size_t(R.ndofs) * size_t(nc)) { V.fail(std::string(label) + ": rank " + std::to_string(r) + " delivered no result vector"); continue; }
        for(Index j = 0; j < R.ndofs; ++j) for(int c = 0; c < nc; ++c)
        {
          const long double wv = want(r, R.p2b[size_t(j)], c);
          const double got = outs[size_t(r)].vec[slot][size_t(j) * size_t(nc) + size_t(c)];
          bool ok;
          if(exact) ok = same_bits(got, double(wv));
          else ok = std::isfinite(got) && fabsl((long double)got - wv) <= 32.0L * eps * (fabsl(wv) + mag(r, R.p2b[size_t(j)], c)) + 1e-300L;
          if(!ok) { std::ostringstream o; o.precision(17); o << label << ": " << name(r, j, c) << " = " << got << ", expected " << double(wv) << (exact ? " (exactly)" : ""); V.fail(o.str()); return; }
        }
      }
    };
    auto cmp_vec = [&](int slot, const char* label, bool exact, auto want, auto mag) { cmp_vec_n(slot, label, exact, bs, want, mag); };
    /// a vector over the BASE dofs delivered by one rank
    auto cmp_base = [&](int r, int slot, const char* label, bool exact, auto want /* (base dof, comp) */, auto mag)
    {
      const auto& vv = outs[size_t(r)].vec[slot];
      if(vv.size() != size_t(B.N) * size_t(bs)) { V.fail(std::string(label) + ": rank " + std::to_string(r) + " delivered no base vector"); return; }
      for(Index b = 0; b < B.N; ++b) for(int c = 0; c < bs; ++c)
      {
        const long double wv = want(b, c); const double got = vv[size_t(b) * size_t(bs) + size_t(c)];
        const bool ok = exact ? same_bits(got, double(wv)) : (std::isfinite(got) && fabsl((long double)got - wv) <= 32.0L * eps * (fabsl(wv) + mag(b, c)) + 1e-300L);
        if(!ok) { std::ostringstream o; o.precision(17); o << label << ": base dof " << b << " component " << c << " (shared by " << B.count[size_t(b)] << " patches) = " << got << ", expected " << double(wv) << (exact ? " (exactly)" : ""); V.fail(o.str()); return; }
      }
    };
    auto cmp_scal = [&](size_t idx, const char* label, bool exact, long double wv, long double mag)
    {
      for(int r = 0; r < P; ++r)
      {
        if(outs[size_t(r)].scal.size() <= idx) { V.fail(std::string(label) + ": rank " + std::to_string(r) + " delivered no value"); continue; }
        const double got = outs[size_t(r)].scal[idx];
        const bool ok = exact ? same_bits(got, double(wv)) : (std::isfinite(got) && fabsl((long double)got - wv) <= 32.0L * eps * (fabsl(wv) + mag));
        if(!ok) { std::ostringstream o; o.precision(17); o << label << ": rank " << r << " got " << got << ", expected " << double(wv) << (exact ? " (exactly)" : ""); V.fail(o.str()); return; }
        if(!same_bits(got, outs[0].scal[idx])) { std::ostringstream o; o.precision(17); o << label << ": ranks disagree on a global scalar: rank 0 has " << outs[0].scal[idx] << ", rank " << r << " has " << got; V.fail(o.str()); return; }
      }
    };
    auto zero = [](int, Index, int) { return 0.0L; };
    // sum over the patches sharing base dof b of the type-0 data w_s
    auto sum_w = [&](Index b, int c) { long double s = 0; for(int q = 0; q < P; ++q) for(Index bj : w.ranks[size_t(q)]->p2b) if(bj == b) s += val_w(q, b, c); return s; };
    auto abs_w = [&](Index b, int c) { long double s = 0; for(int q = 0; q < P; ++q) for(Index bj : w.ranks[size_t(q)]->p2b) if(bj == b) s += fabs(val_w(q, b, c)); return s; };
    auto Au = [&](Index b, int c) { long double s = 0; for(Index j = 0; j < B.N; ++j) for(int q = 0; q < bs; ++q) s += (long double)B.a(b, j) * (bs == 1 ? 1.0 : blockB(c, q)) * val_u(j, q); return s; };
    auto absAu = [&](Index b, int c) { long double s = 0; for(Index j = 0; j < B.N; ++j) for(int q = 0; q < bs; ++q) s += fabsl((long double)B.a(b, j) * (bs == 1 ? 1.0 : blockB(c, q)) * val_u(j, q)); return s; };
    const bool p2 = B.all_pow2;
    auto check_to1 = [&](const char* label)
    {
      for(int r = 0; r < P; ++r)
      {
        const auto& R = *w.ranks[size_t(r)];
        const Index* rp = R.A0.row_ptr(); const Index* ci = R.A0.col_ind();
        if(outs[size_t(r)].mat.size() != size_t(R.A0.used_elements()) * size_t(bs * bs)) { V.fail(std::string(label) + ": rank " + std::to_string(r) + " delivered no matrix"); continue; }
        for(Index i = 0; i < R.ndofs && V.ok(); ++i) for(Index k = rp[i]; k < rp[i + 1]; ++k) for(int p = 0; p < bs; ++p) for(int q = 0; q < bs; ++q)
        {
          const double wv = B.a(R.p2b[size_t(i)], R.p2b[size_t(ci[k])]) * (bs == 1 ? 1.0 : blockB(p, q));
          const double got = outs[size_t(r)].mat[size_t(k) * size_t(bs * bs) + size_t(p * bs + q)];
          if(!same_bits(got, wv)) { std::ostringstream o; o.precision(17); o << std::string(label) + ": rank " << r << " entry (" << i << "," << ci[k] << ") = base (" << R.p2b[size_t(i)] << "," << R.p2b[size_t(ci[k])] << ") block (" << p << "," << q << ") is " << got << ", expected " << wv; V.fail(o.str()); break; }
        }
      }
    };

    for(int r = 0; r < P; ++r) if(!outs[size_t(r)].note.empty()) V.fail("rank " + std::to_string(r) + ": " + outs[size_t(r)].note);

    switch(op)
    {
    case op_gate:
      cmp_vec(0, "Gate::_freqs", true, [&](int, Index b, int) { return (long double)(1.0 / double(B.count[size_t(b)])); }, zero);
      cmp_scal(0, "get_num_global_dofs", true, (long double)B.N, 0);
      cmp_scal(1, "Gate::sum", true, (long double)(double(P) * 1.5 + double(P * (P - 1) / 2)), 0);
      cmp_scal(2, "Gate::min", true, 1.5L, 0);
      cmp_scal(3, "Gate::max", true, (long double)(double(P) + 0.5), 0);
      { double s = 0; for(int r = 0; r < P; ++r) s += 0.25 * double((r + 1) * (r + 1)); cmp_scal(4, "Gate::norm2", true, (long double)std::sqrt(s), 0); }
      { double mx = 0, mn = 1e300; for(Index i = 0; i < B.N; ++i) for(int c = 0; c < bs; ++c) { mx = std::max(mx, fabs(val_u(i, c))); mn = std::min(mn, fabs(val_u(i, c))); }
        cmp_scal(5, "max_abs_element", true, mx, 0); cmp_scal(6, "min_abs_element", true, mn, 0); }
      cmp_vec(1, "filter_sol", true, [&](int, Index b, int c) { return (long double)(in_dirichlet(b) ? val_g(b, c) : val_u(b, c)); }, zero);
      cmp_vec(2, "filter_def", true, [&](int, Index b, int c) { return (long double)(in_dirichlet(b) ? 0.0 : val_u(b, c)); }, zero);
      break;
    case op_sync0:
      cmp_vec(0, "sync_0", true, [&](int, Index b, int c) { return sum_w(b, c); }, zero);
      break;
    case op_sync1:
      cmp_vec(0, "sync_1", p2, [&](int, Index b, int c) { return (long double)val_u(b, c); }, [&](int, Index b, int c) { return (long double)fabs(val_u(b, c)); });
      break;
    case op_sync1_mean:
      cmp_vec(0, "sync_1(mean)", p2, [&](int, Index b, int c) { return sum_w(b, c) / (long double)B.count[size_t(b)]; }, [&](int, Index b, int c) { return abs_w(b, c); });
      break;
    case op_from10_dot:
      {
        cmp_vec(0, "from_1_to_0", p2, [&](int, Index b, int c) { return (long double)val_v(b, c) / (long double)B.count[size_t(b)]; }, zero);
        long double d = 0, ad = 0, nn = 0;
        for(Index i = 0; i < B.N; ++i) for(int c = 0; c < bs; ++c) { d += (long double)val_u(i, c) * val_v(i, c); ad += fabsl((long double)val_u(i, c) * val_v(i, c)); nn += (long double)val_u(i, c) * val_u(i, c); }
        cmp_scal(0, "dot", p2, d, ad);
        cmp_scal(1, "norm2", p2, (long double)std::sqrt(double(nn)), sqrtl(nn));
        cmp_scal(2, "norm2sqr", p2, nn, nn);
        cmp_scal(3, "dot_async", p2, d, ad);
        cmp_scal(4, "norm2_async", p2, (long double)std::sqrt(double(nn)), sqrtl(nn));
        cmp_vec(1, "dot operand x unchanged", true, [&](int, Index b, int c) { return (long double)val_u(b, c); }, zero);
        cmp_vec(2, "dot operand y unchanged", true, [&](int, Index b, int c) { return (long double)val_v(b, c); }, zero);
      }
      break;
    case op_apply:
      cmp_vec(0, "Matrix::apply", true, [&](int, Index b, int c) { return Au(b, c); }, zero);
      cmp_vec(1, "Matrix::apply operand unchanged", true, [&](int, Index b, int c) { return (long double)val_u(b, c); }, zero);
      break;
    case op_apply_axpy:
      cmp_vec(0, "Matrix::apply(r,x,y,alpha)", p2, [&](int, Index b, int c) { return (long double)val_v(b, c) - 0.5L * Au(b, c); }, [&](int, Index b, int c) { return fabsl((long double)val_v(b, c)) + absAu(b, c); });
      cmp_vec(1, "Matrix::apply(r,x,y,alpha) operand y unchanged", true, [&](int, Index b, int c) { return (long double)val_v(b, c); }, zero);
      break;
    case op_diag:
      cmp_vec(0, "extract_diag", true, [&](int, Index b, int c) { return (long double)B.a(b, b) * (bs == 1 ? 1.0 : blockB(c, c)); }, zero);
      // unsynchronised diagonal: the sum over the patch's own cells only; its sum over the sharing patches is the base diagonal
      {
        std::vector<long double> acc(size_t(B.N) * size_t(bs), 0.0L);
        bool have = true;
        for(int r = 0; r < P; ++r) { const auto& R = *w.ranks[size_t(r)]; if(outs[size_t(r)].vec[1].size() != size_t(R.ndofs) * size_t(bs)) { have = false; break; } for(Index j = 0; j < R.ndofs; ++j) for(int c = 0; c < bs; ++c) acc[size_t(R.p2b[size_t(j)]) * size_t(bs) + size_t(c)] += at(r, 1, j, c); }
        if(have) for(Index b = 0; b < B.N; ++b) for(int c = 0; c < bs; ++c) if(acc[size_t(b) * size_t(bs) + size_t(c)] != (long double)B.a(b, b) * (bs == 1 ? 1.0 : blockB(c, c))) { V.fail("extract_diag(sync=false): the type-0 diagonals do not add up to the base diagonal at base dof " + std::to_string(b)); break; }
      }
      break;
    case op_lump:
      cmp_vec(0, "lump_rows", true, [&](int, Index b, int c) { long double s = 0; for(Index j = 0; j < B.N; ++j) for(int q = 0; q < bs; ++q) s += (long double)B.a(b, j) * (bs == 1 ? 1.0 : blockB(c, q)); return s; }, zero);
      break;
    case op_to1:
      check_to1("convert_to_1");
      break;
    case op_rect_apply:
      if(bs == 2)
        cmp_vec(0, "rect-block Matrix::apply", true, [&](int, Index b, int c) { long double s = 0; for(Index j = 0; j < B.N; ++j) for(int q = 0; q < 3; ++q) s += (long double)B.a(b, j) * blockR(c, q) * val_u(j, q); return s; }, zero);
      break;
    case op_rect_to1:
      if(bs == 2) for(int r = 0; r < P; ++r)
      {
        const auto& R = *w.ranks[size_t(r)];
        const Index* rp = R.A0r.row_ptr(); const Index* ci = R.A0r.col_ind();
        if(outs[size_t(r)].mat.size() != size_t(R.A0r.used_elements()) * 6u) { V.fail("rect-block convert_to_1: rank " + std::to_string(r) + " delivered no matrix"); continue; }
        for(Index i = 0; i < R.ndofs && V.ok(); ++i) for(Index k = rp[i]; k < rp[i + 1]; ++k) for(int p = 0; p < 2; ++p) for(int q = 0; q < 3; ++q)
        {
          const double wv = B.a(R.p2b[size_t(i)], R.p2b[size_t(ci[k])]) * blockR(p, q);
          const double got = outs[size_t(r)].mat[size_t(k) * 6u + size_t(p * 3 + q)];
          if(!same_bits(got, wv)) { std::ostringstream o; o.precision(17); o << "rect-block convert_to_1: rank " << r << " entry (" << i << "," << ci[k] << ") = base (" << R.p2b[size_t(i)] << "," << R.p2b[size_t(ci[k])] << ") block (" << p << "," << q << ") is " << got << ", expected " << wv; V.fail(o.str()); break; }
        }
      }
      break;
    case op_multi:
      {
        auto sum_w2 = [&](Index b, int c) { long double s2 = 0; for(int q = 0; q < P; ++q) for(Index bj : w.ranks[size_t(q)]->p2b) if(bj == b) s2 += val_w2(q, b, c); return s2; };
        cmp_vec(0, "tickets in flight: first sync_0", true, [&](int, Index b, int c) { return sum_w(b, c); }, zero);
        cmp_vec(1, "tickets in flight: second sync_0", true, [&](int, Index b, int c) { return sum_w2(b, c); }, zero);
        cmp_vec(2, "tickets in flight: dot operand x unchanged", true, [&](int, Index b, int c) { return (long double)val_u(b, c); }, zero);
        cmp_vec(3, "tickets in flight: dot operand y unchanged", true, [&](int, Index b, int c) { return (long double)val_v(b, c); }, zero);
        long double d = 0, ad = 0, nn = 0; double mx = 0;
        for(Index i = 0; i < B.N; ++i) for(int c = 0; c < bs; ++c) { d += (long double)val_u(i, c) * val_v(i, c); ad += fabsl((long double)val_u(i, c) * val_v(i, c)); nn += (long double)val_u(i, c) * val_u(i, c); mx = std::max(mx, fabs(val_u(i, c))); }
        cmp_scal(0, "tickets in flight: norm2_async", p2, (long double)std::sqrt(double(nn)), sqrtl(nn));
        cmp_scal(1, "tickets in flight: max_abs_element_async", true, mx, 0);
        cmp_scal(2, "tickets in flight: dot_async", p2, d, ad);
      }
      break;
    case op_repeat:
      {
        cmp_vec(0, "sync_0 applied twice", true, [&](int, Index b, int c) { return (long double)B.count[size_t(b)] * sum_w(b, c); }, zero);
        long double d = 0, ad = 0;
        for(Index i = 0; i < B.N; ++i) for(int c = 0; c < bs; ++c) { d += (long double)val_u(i, c) * val_v(i, c); ad += fabsl((long double)val_u(i, c) * val_v(i, c)); }
        cmp_scal(0, "dot (1st call)", p2, d, ad); cmp_scal(1, "dot (2nd call on the same gate)", p2, d, ad); cmp_scal(2, "dot (operands swapped)", p2, d, ad);
        cmp_vec(1, "Matrix::apply into a vector holding an older result", true, [&](int, Index b, int c) { long double s2 = 0; for(Index j = 0; j < B.N; ++j) for(int q = 0; q < bs; ++q) s2 += (long double)B.a(b, j) * (bs == 1 ? 1.0 : blockB(c, q)) * val_v(j, q); return s2; }, zero);
        cmp_vec(2, "sync_1 applied twice", p2, [&](int, Index b, int c) { return (long double)val_u(b, c); }, [&](int, Index b, int c) { return (long double)fabs(val_u(b, c)); });
        cmp_scal(3, "get_num_global_dofs (1st call)", true, (long double)B.N, 0); cmp_scal(4, "get_num_global_dofs (2nd call)", true, (long double)B.N, 0);
      }
      break;
    case op_derived:
      {
        cmp_vec(0, "gate converted to float/unsigned: sync_0", true, [&](int, Index b, int c) { return sum_w(b, c); }, zero);
        cmp_vec(1, "gate converted to float/unsigned: frequencies", true, [&](int, Index b, int) { return (long double)float(1.0 / double(B.count[size_t(b)])); }, zero);
        long double d = 0, ad = 0;
        for(Index i = 0; i < B.N; ++i) for(int c = 0; c < bs; ++c) { d += (long double)val_u(i, c) * val_v(i, c); ad += fabsl((long double)val_u(i, c) * val_v(i, c)); }
        for(int r = 0; r < P; ++r)
        {
          const double got = outs[size_t(r)].scal.empty() ? std::nan("") : outs[size_t(r)].scal[0];
          if(!(p2 ? got == double(d) : fabsl((long double)got - d) <= 1e-5L * (ad + 1))) { std::ostringstream o; o.precision(9); o << "gate converted to float/unsigned: dot on rank " << r << " is " << got << ", expected " << double(d); V.fail(o.str()); break; }
        }
        cmp_vec_n(2, "gate converted to blocked<3> vectors: sync_0", true, 3, [&](int, Index b, int c) { return sum_w(b, c); }, zero);
        cmp_vec(3, "move-constructed / move-assigned gate: sync_0", true, [&](int, Index b, int c) { return sum_w(b, c); }, zero);
        cmp_vec(4, "cloned matrix applied to a cloned vector", true, [&](int, Index b, int c) { return Au(b, c); }, zero);
        cmp_vec(5, "source gate after conversions: sync_0", true, [&](int, Index b, int c) { return sum_w(b, c); }, zero);
      }
      break;
    case op_alpha:
      {
        const double alphas[3] = {0.0, 1.0, -1.0};
        const char* lab[3] = {"Matrix::apply(r,x,y,alpha=0)", "Matrix::apply(r,x,y,alpha=1)", "Matrix::apply(r,x,y,alpha=-1)"};
        for(int k = 0; k < 3; ++k)
          cmp_vec(k, lab[k], p2, [&](int, Index b, int c) { return (long double)val_v(b, c) + (long double)alphas[k] * Au(b, c); }, [&](int, Index b, int c) { return fabsl((long double)val_v(b, c)) + absAu(b, c); });
      }
      break;
    case op_extreme:
      {
        const long double big = ldexpl(1.0L, 500), tiny = ldexpl(1.0L, -1060);
        auto sum_neg = [&](Index b, int c) { long double s2 = 0; for(int q = 0; q < P; ++q) for(Index bj : w.ranks[size_t(q)]->p2b) if(bj == b) s2 += -fabsl((long double)val_w(q, b, c)) - 0.25L; return s2; };
        cmp_vec(0, "sync_0 of values around 2^500", true, [&](int, Index b, int c) { return sum_w(b, c) * big; }, zero);
        cmp_vec(1, "sync_0 of denormal values", true, [&](int, Index b, int c) { return sum_w(b, c) * tiny; }, zero);
        cmp_vec(2, "sync_0 of all-negative values", true, [&](int, Index b, int c) { return sum_neg(b, c); }, zero);
        cmp_vec(3, "sync_0 of zeros", true, zero, zero);
        long double d = 0, ad = 0, mx = 0;
        for(Index i = 0; i < B.N; ++i) for(int c = 0; c < bs; ++c) { d += (long double)val_u(i, c) * val_v(i, c); ad += fabsl((long double)val_u(i, c) * val_v(i, c)); mx = std::max(mx, fabsl(sum_neg(i, c))); }
        cmp_scal(0, "dot of 2^200 / 2^-200 scaled vectors", p2, d, ad);
        cmp_scal(1, "max_abs_element of an all-negative vector", true, mx, 0);
      }
      break;
    case op_empty:
      cmp_vec(0, "empty mirrors pushed: sync_0", true, [&](int, Index b, int c) { return sum_w(b, c); }, zero);
      cmp_vec(1, "empty mirrors pushed: Matrix::apply", true, [&](int, Index b, int c) { return Au(b, c); }, zero);
      cmp_vec(2, "empty mirrors pushed: frequencies", true, [&](int, Index b, int) { return (long double)(1.0 / double(B.count[size_t(b)])); }, zero);
      check_to1("empty mirrors pushed: convert_to_1");
      break;
    case op_splitter:
      {
        cmp_vec(0, "Splitter::split", true, [&](int, Index b, int c) { return (long double)val_u(b, c); }, zero);
        cmp_base(0, 1, "Splitter::join", p2, [&](Index b, int c) { return (long double)val_v(b, c); }, [&](Index b, int c) { return (long double)fabs(val_v(b, c)); });
        cmp_vec(4, "Splitter::join operand unchanged", true, [&](int, Index b, int c) { return (long double)val_v(b, c); }, zero);
        cmp_base(P - 1, 2, "Muxer::join", true, [&](Index b, int c) { return sum_w(b, c); }, [&](Index, int) { return 0.0L; });
        cmp_vec(3, "Muxer::split", true, [&](int, Index b, int c) { return (long double)val_v(b, c); }, zero);
      }
      break;
    case op_misc:
      {
        auto ATu = [&](Index b, int c) { long double s2 = 0; for(Index j = 0; j < B.N; ++j) for(int q = 0; q < bs; ++q) s2 += (long double)B.a(j, b) * (bs == 1 ? 1.0 : blockB(q, c)) * val_u(j, q); return s2; };
        auto absATu = [&](Index b, int c) { long double s2 = 0; for(Index j = 0; j < B.N; ++j) for(int q = 0; q < bs; ++q) s2 += fabsl((long double)B.a(j, b) * (bs == 1 ? 1.0 : blockB(q, c)) * val_u(j, q)); return s2; };
        long double nnz = 0; for(int r = 0; r < P; ++r) nnz += (long double)w.ranks[size_t(r)]->A0.used_elements() * (long double)(bs * bs);
        cmp_scal(0, "Matrix::rows", true, (long double)B.N * bs, 0); cmp_scal(1, "Matrix::columns", true, (long double)B.N * bs, 0);
        cmp_scal(2, "Matrix::used_elements", true, nnz, 0); cmp_scal(3, "Vector::size", true, (long double)B.N * bs, 0);
        cmp_scal(4, "Matrix::rows<native>", true, (long double)B.N, 0); cmp_scal(5, "bytes() > 0", true, 1.0L, 0);
        cmp_vec(0, "Matrix::apply_transposed", true, [&](int, Index b, int c) { return ATu(b, c); }, zero);
        cmp_vec(1, "Matrix::apply_transposed(r,x,y,alpha)", p2, [&](int, Index b, int c) { return (long double)val_v(b, c) + 0.5L * ATu(b, c); }, [&](int, Index b, int c) { return fabsl((long double)val_v(b, c)) + absATu(b, c); });
        for(int r = 0; r < P && V.ok(); ++r)
        {
          const auto& R = *w.ranks[size_t(r)];
          if(outs[size_t(r)].mat.size() < size_t(R.ndofs) * size_t(2 * bs)) { V.fail("apply_transposed_async: rank " + std::to_string(r) + " delivered no vectors"); break; }
          for(Index j = 0; j < R.ndofs && V.ok(); ++j) for(int c = 0; c < bs; ++c)
          {
            const Index b = R.p2b[size_t(j)];
            const double g1 = outs[size_t(r)].mat[size_t(j) * size_t(bs) + size_t(c)], g2 = outs[size_t(r)].mat[size_t(R.ndofs) * size_t(bs) + size_t(j) * size_t(bs) + size_t(c)];
            const long double w1 = ATu(b, c), w2 = (long double)val_v(b, c) + 0.5L * ATu(b, c);
            if(!same_bits(g1, double(w1))) { std::ostringstream o; o.precision(17); o << "Matrix::apply_transposed_async: " << name(r, j, c) << " = " << g1 << ", expected " << double(w1); V.fail(o.str()); break; }
            const bool ok2 = p2 ? same_bits(g2, double(w2)) : (fabsl((long double)g2 - w2) <= 32.0L * eps * (fabsl(w2) + fabsl((long double)val_v(b, c)) + absATu(b, c)));
            if(!ok2) { std::ostringstream o; o.precision(17); o << "Matrix::apply_transposed_async(r,x,y,alpha): " << name(r, j, c) << " = " << g2 << ", expected " << double(w2); V.fail(o.str()); break; }
          }
        }
        cmp_vec(2, "Matrix::apply_async", true, [&](int, Index b, int c) { return Au(b, c); }, zero);
        cmp_vec(3, "Matrix::apply_async(r,x,y,alpha)", p2, [&](int, Index b, int c) { return (long double)val_v(b, c) - 0.5L * Au(b, c); }, [&](int, Index b, int c) { return fabsl((long double)val_v(b, c)) + absAu(b, c); });
        double mn = 1e300, mxe = -1e300, mne = 1e300;
        for(Index i = 0; i < B.N; ++i) for(int c = 0; c < bs; ++c) { mn = std::min(mn, fabs(val_u(i, c))); mxe = std::max(mxe, val_u(i, c)); mne = std::min(mne, val_u(i, c)); }
        cmp_scal(6, "min_abs_element_async", true, mn, 0); cmp_scal(7, "max_element_async", true, mxe, 0); cmp_scal(8, "min_element_async", true, mne, 0);
        size_t ks = 9;
        if(bs == 2)
        {
          auto RTu = [&](Index b, int c) { long double s2 = 0; for(Index j = 0; j < B.N; ++j) for(int q = 0; q < 2; ++q) s2 += (long double)B.a(j, b) * blockR(q, c) * val_u(j, q); return s2; };
          auto absRTu = [&](Index b, int c) { long double s2 = 0; for(Index j = 0; j < B.N; ++j) for(int q = 0; q < 2; ++q) s2 += fabsl((long double)B.a(j, b) * blockR(q, c) * val_u(j, q)); return s2; };
          for(int r = 0; r < P && V.ok(); ++r)
          {
            const auto& R = *w.ranks[size_t(r)];
            if(outs[size_t(r)].mat.size() != size_t(R.ndofs) * 10u) { V.fail("rect-block apply_transposed: rank " + std::to_string(r) + " delivered no vectors"); break; }
            for(Index j = 0; j < R.ndofs && V.ok(); ++j) for(int c = 0; c < 3; ++c)
            {
              const Index b = R.p2b[size_t(j)];
              const double g1 = outs[size_t(r)].mat[size_t(R.ndofs) * 4u + size_t(j) * 3u + size_t(c)], g2 = outs[size_t(r)].mat[size_t(R.ndofs) * 7u + size_t(j) * 3u + size_t(c)];
              const long double w1 = RTu(b, c), w2 = (long double)val_v(b, c) - 0.5L * RTu(b, c);
              if(!same_bits(g1, double(w1))) { std::ostringstream o; o.precision(17); o << "rect-block Matrix::apply_transposed: " << name(r, j, c) << " = " << g1 << ", expected " << double(w1); V.fail(o.str()); break; }
              const bool ok2 = p2 ? same_bits(g2, double(w2)) : (fabsl((long double)g2 - w2) <= 32.0L * eps * (fabsl(w2) + fabsl((long double)val_v(b, c)) + absRTu(b, c)));
              if(!ok2) { std::ostringstream o; o.precision(17); o << "rect-block Matrix::apply_transposed(r,x,y,alpha): " << name(r, j, c) << " = " << g2 << ", expected " << double(w2); V.fail(o.str()); break; }
            }
          }
          cmp_scal(9, "rect-block Matrix::rows", true, (long double)B.N * 2, 0); cmp_scal(10, "rect-block Matrix::columns", true, (long double)B.N * 3, 0);
          ks = 11;
        }
        if(!(P == 1 && w.cfg.renum != 0))
        {
          cmp_vec(4, "Splitter::join_write_out + split_read_from", p2, [&](int, Index b, int c) { return (long double)val_v(b, c); }, [&](int, Index b, int c) { return (long double)fabs(val_v(b, c)); });
          cmp_vec(5, "Splitter converted to float/unsigned: split", true, [&](int, Index b, int c) { return (long double)val_u(b, c); }, zero);
          cmp_scal(ks, "Splitter::bytes", true, 1.0L, 0);
        }
      }
      break;
    case op_meanfilter:
      if(bs == 1)
      {
        auto fp = [](Index b) { return (long double)(1.0 + 0.5 * double(b % 3)); };
        auto fd = [](Index b) { return (long double)(0.25 * double(1 + (b % 4))); };
        long double vol = 0, iu = 0, iv = 0, au = 0, av = 0;
        for(Index i = 0; i < B.N; ++i) { vol += fp(i) * fd(i); iu += (long double)val_u(i, 0) * fp(i); au += fabsl((long double)val_u(i, 0) * fp(i)); iv += (long double)val_v(i, 0) * fd(i); av += fabsl((long double)val_v(i, 0) * fd(i)); }
        cmp_scal(0, "MeanFilter volume", p2, vol, vol); cmp_scal(1, "cloned MeanFilter volume", p2, vol, vol);
        cmp_vec(0, "MeanFilter::filter_rhs", false, [&](int, Index b, int) { return (long double)val_u(b, 0) - fd(b) * iu / vol; }, [&](int, Index b, int) { return fabsl((long double)val_u(b, 0)) + fd(b) * au / vol; });
        cmp_vec(1, "MeanFilter::filter_sol", false, [&](int, Index b, int) { return (long double)val_v(b, 0) - fp(b) * iv / vol; }, [&](int, Index b, int) { return fabsl((long double)val_v(b, 0)) + fp(b) * av / vol; });
        cmp_vec(2, "MeanFilter::filter_def applied twice (clone)", false, [&](int, Index b, int) { return (long double)val_u(b, 0) - fd(b) * iu / vol; }, [&](int, Index b, int) { return 4 * (fabsl((long double)val_u(b, 0)) + fd(b) * au / vol); });
      }
      break;
    case op_pcg:
      {
        long double nx = 0; for(double v : p1.x) nx = std::max(nx, fabsl((long double)v));
        for(int r = 0; r < P && V.ok(); ++r)
        {
          const auto& R = *w.ranks[size_t(r)];
          if(outs[size_t(r)].vec[0].size() != size_t(R.ndofs) * size_t(bs) || outs[size_t(r)].scal.size() != 4) { V.fail("pcg: rank " + std::to_string(r) + " delivered no result"); break; }
          for(Index j = 0; j < R.ndofs; ++j) for(int c = 0; c < bs; ++c)
          {
            const double got = at(r, 0, j, c), wv = p1.x[size_t(R.p2b[size_t(j)]) * size_t(bs) + size_t(c)];
            if(!(std::isfinite(got) && fabsl((long double)got - wv) <= 1e-10L * (nx + 1e-30L))) { std::ostringstream o; o.precision(17); o << "pcg solution: " << name(r, j, c) << " = " << got << ", the one-process run gives " << wv; V.fail(o.str()); r = P; j = R.ndofs; break; }
          }
        }
        cmp_scal(0, "pcg status", true, p1.scal[0], 0);
        cmp_scal(1, "pcg iteration count", true, p1.scal[1], 0);
        for(int r = 0; r < P && V.ok(); ++r) for(size_t k = 2; k < 4; ++k)
        {
          const double got = outs[size_t(r)].scal[k], wv = p1.scal[k];
          if(!(std::isfinite(got) && fabs(got - wv) <= 1e-9 * p1.scal[2])) { std::ostringstream o; o.precision(17); o << "pcg " << (k == 2 ? "initial" : "final") << " defect norm: rank " << r << " has " << got << ", the one-process run " << wv; V.fail(o.str()); }
          if(!same_bits(got, outs[0].scal[k])) V.fail("pcg: ranks disagree on a defect norm");
        }
      }
      break;
    default: break;
    }
  }

  // -----------------------------------------------------------------------------------------------
  struct DeadCtx { verif::Ctx* c = nullptr; std::string key; std::string pre; };
  inline DeadCtx& dead_ctx() { static DeadCtx d; return d; }
  inline void deadlock_cb(void*)
  {
    DeadCtx& d = dead_ctx();
    std::vector<int> sch; for(auto& x : vsched::decisions()) sch.push_back(x.chosen);
    const std::string s = d.pre + vsched::schedule_to_string(sch);
    d.c->fail("deadlock " + d.key, std::string("deadlock: no rank can make progress: ") + vsched::blocked_graph() + " [replay --extra " + s + "]", s);
    d.c->capped("deadlock-abort");
    d.c->write_results();
    fflush(stdout);
    _exit(0);
  }

  struct Bounds { int multi_dev = 2; bool alternate_modes = false; int pcg_dev = 2; uint64_t max_exec = 20000; bool do_pcg = true; bool do_to1 = true; bool thread_check = false; uint64_t thread_exec = 2000; };

  template<typename Mesh_, int space_id_, int BS_>
  void run_case_t(verif::Ctx& c, const Cfg& cfg, const Bounds& bd)
  {
    typedef World<Mesh_, space_id_, BS_> W;
    W w;
    if(!w.build(cfg)) { c.fail("harness: world construction", w.error); return; }
    P1Result p1;
    bool have_p1 = false;
    const int P = cfg.P;
    int nshared = 0; for(int x : w.B.count) if(x > 1) ++nshared;
    const std::string cls = std::string(space_name(cfg.space)) + " " + (BS_ == 1 ? "scalar" : "blocked2");

    auto execute = [&](int mode, int op, const std::vector<int>& prefix, std::vector<RankOut>& outs, Verdict& V)
    {
      c.heartbeat();
      outs.assign(size_t(P), RankOut());
      minimpi::set_mode(mode == 0 ? minimpi::eager : minimpi::rendezvous);
      vsched::reset(prefix, false);
      minimpi::run(P, [&](int rank) { rank_body(w, op, rank, outs[size_t(rank)]); });
      if(vsched::diverged()) { V.fail("MACHINERY: schedule prefix diverged"); return; }
      const std::string left = minimpi::leftovers(false);
      if(!left.empty()) V.fail("MPI objects left behind: " + left);
      judge(w, op, outs, p1, V);
      if(op == op_pcg) Statistics::reset();
    };

    // replay of one schedule: --extra mode:op:schedule
    if(c.replaying && !c.extra.empty())
    {
      int mode = 0, op = 0; std::string sch;
      { size_t a = c.extra.find(':'), b = c.extra.find(':', a + 1); mode = atoi(c.extra.substr(0, a).c_str()); op = atoi(c.extra.substr(a + 1, b - a - 1).c_str()); sch = c.extra.substr(b + 1); }
      if(op == op_pcg) { p1 = solve_base(w); Statistics::reset(); }
      std::vector<RankOut> outs; Verdict V;
      execute(mode, op, vsched::schedule_from_string(sch), outs, V);
      if(!V.ok()) c.fail(std::string(op_name(op)) + " " + cls, V.what, c.extra);
      return;
    }

    vsched::set_deadlock_cb(deadlock_cb, nullptr);
    bool stop_case = false;
    for(int mode = 0; mode < 2 && !stop_case; ++mode)
    for(int op = 0; op < op_count && !stop_case; ++op)
    {
      if(op == op_pcg && !bd.do_pcg) continue;
      if(op == op_to1 && !bd.do_to1) continue;
      if((op == op_rect_apply || op == op_rect_to1) && BS_ != 2) continue;
      if(op == op_meanfilter && BS_ != 1) continue;
      if(op == op_splitter && P == 1) { bool ident = true; for(Index j = 0; j < w.ranks[0]->ndofs; ++j) ident = ident && (w.ranks[0]->p2b[size_t(j)] == j); if(!ident) continue; }
      if(op == op_pcg && !have_p1) { p1 = solve_base(w); Statistics::reset(); have_p1 = true; }
      const std::string pre = std::to_string(mode) + ":" + std::to_string(op) + ":";
      dead_ctx().c = &c; dead_ctx().key = std::string(op_name(op)) + " " + cls; dead_ctx().pre = pre;
      minimpi::Explorer ex;
      ex.deviation_bound = (op == op_pcg) ? bd.pcg_dev : op_is_multi(op) ? bd.multi_dev : -1;
      // quick tier: the long multi-synchronisation operations alternate between the send modes from case to case
      if(bd.alternate_modes && op_is_multi(op) && op != op_pcg && op != op_multi && (int((c.index() + op) % 2) != mode)) continue;
      ex.max_executions = bd.max_exec;
      const double t_end = c._deadline;
      ex.stop = [&c, t_end]() { return t_end > 0.0 && c.now() > t_end; };
      std::set<uint64_t> digests;
      std::string failure;
      const bool ok = ex.explore([&](const std::vector<int>& prefix) -> bool
      {
        std::vector<RankOut> outs; Verdict V;
        execute(mode, op, prefix, outs, V);
        if(!V.ok()) { failure = V.what; return false; }
        digests.insert(digest(outs));
        return true;
      });
      c.count("executions", ex.stats.executions);
      c.count("traces_validated_against_impl", ex.stats.executions);
      c.count("states", ex.stats.states);
      c.count("transitions", ex.stats.transitions);
      c.count("waitany_decisions", ex.stats.value_decisions);
      c.maxi("waitany_options", ex.stats.max_options);
      c.maxi("waitany_decisions_per_execution", ex.stats.max_value_decisions);
      c.maxi("executions_per_operation", ex.stats.executions);
      if(ex.stats.capped) c.capped(std::string("executions-or-deadline ") + op_name(op));
      if(!ok)
      {
        const std::string s = pre + vsched::schedule_to_string(ex.failing);
        std::vector<RankOut> outs; Verdict V2;
        execute(mode, op, ex.failing, outs, V2);
        if(failure.compare(0, 9, "MACHINERY") == 0) c.fail("machinery", failure, s);
        else if(V2.ok()) c.fail("machinery", "failing schedule did not reproduce: " + failure, s);
        else c.fail(std::string(op_name(op)) + " " + cls, failure + " [" + (mode ? "rendezvous" : "eager") + ", replay --extra " + s + "]", s);
        stop_case = true;   // one report per case
        break;
      }
      const bool exact_op = (op == op_gate || op == op_sync0 || op == op_apply || op == op_diag || op == op_lump || op == op_to1 || op == op_rect_apply || op == op_rect_to1 || op == op_empty) || (w.B.all_pow2 && op != op_pcg);
      if(exact_op && digests.size() != 1)
        c.fail(std::string("order dependence: ") + op_name(op) + " " + cls, "exact data, but " + std::to_string(digests.size()) + " distinct result digests over " + std::to_string(ex.stats.executions) + " arrival orders", pre);
      c.outcome(std::string(op_name(op)) + (exact_op ? " exact" : " rounded") + " digests=" + (digests.size() == 1 ? "1" : digests.size() <= 4 ? "2-4" : ">4"));
      c.maxi(std::string("distinct_digests ") + op_name(op), digests.size());
      if(c.cut()) stop_case = true;
    }
    // validation of the reduction "rank interleavings need not be enumerated": on selected cases the rank threads are
    // additionally scheduled by the full vsched explorer (one preemption, all switches at blocking points) for sync_0 and
    // matrix.apply; oracle and digest must not change
    if(bd.thread_check && !stop_case && P >= 2)
    {
      for(int op : {int(op_sync0), int(op_apply)})
      {
        vsched::Explorer ex;
        ex.preempt_bound = 1;
        ex.max_executions = bd.thread_exec;
        std::set<uint64_t> digests; std::string failure;
        const bool ok = ex.explore([&](const std::vector<int>& prefix) -> bool
        {
          std::vector<RankOut> outs; Verdict V;
          execute(1, op, prefix, outs, V);
          if(!V.ok()) { failure = V.what; return false; }
          digests.insert(digest(outs));
          return true;
        });
        c.count("rank_interleavings_checked", ex.stats.executions);
        c.count("executions", ex.stats.executions);
        c.count("traces_validated_against_impl", ex.stats.executions);
        if(!ok) c.fail(std::string("rank interleaving: ") + op_name(op) + " " + cls, failure, "1:" + std::to_string(op) + ":" + vsched::schedule_to_string(ex.failing));
        else if(digests.size() != 1) c.fail(std::string("rank interleaving changes the result: ") + op_name(op) + " " + cls, std::to_string(digests.size()) + " digests", "");
      }
    }
    int maxnb = 0, empties = 0, nonasc = 0, nmir = 0; for(auto& R : w.ranks) { maxnb = std::max(maxnb, int(R->nb.size())); empties += R->empty_mirrors; nonasc += R->nonasc; nmir += int(R->mirrors.size()); }
    c.count("mirrors_total", uint64_t(nmir));
    c.count("mirrors_non_ascending", uint64_t(nonasc));
    if(nonasc > 0) c.count("cases_with_non_ascending_mirrors");
    c.maxi("neighbours_per_rank", uint64_t(maxnb));
    c.maxi("patches_sharing_a_dof", uint64_t(w.B.max_count));
    c.count("empty_mirrors_skipped", uint64_t(empties));
    if(P >= 2 && nshared > 0) c.nontrivial(verif::Hash().str(cfg.str()).get());
  }

  template<typename Mesh_>
  void run_case(verif::Ctx& c, const Cfg& cfg, const Bounds& bd)
  {
    switch(cfg.space * 2 + (cfg.bs - 1))
    {
    case 0: run_case_t<Mesh_, sp_lagrange1, 1>(c, cfg, bd); break;
    case 1: run_case_t<Mesh_, sp_lagrange1, 2>(c, cfg, bd); break;
    case 2: run_case_t<Mesh_, sp_lagrange2, 1>(c, cfg, bd); break;
    case 3: run_case_t<Mesh_, sp_lagrange2, 2>(c, cfg, bd); break;
    case 4: run_case_t<Mesh_, sp_crouzeix, 1>(c, cfg, bd); break;
    case 5: run_case_t<Mesh_, sp_crouzeix, 2>(c, cfg, bd); break;
    case 6: run_case_t<Mesh_, sp_p0, 1>(c, cfg, bd); break;
    case 7: run_case_t<Mesh_, sp_p0, 2>(c, cfg, bd); break;
    default: break;
    }
  }

} // namespace c13

// ---------------------------------------------------------------------------------------------------
// enumeration + main, selected by C13_FAMILY
// ---------------------------------------------------------------------------------------------------
#ifndef C13_FAMILY
#error "define C13_FAMILY before including c13_sync_impl.hpp"
#endif

namespace c13
{
#if C13_FAMILY == 0
  typedef Geometry::ConformalMesh<Shape::Hypercube<2>, 2, double> FamilyMesh;
#elif C13_FAMILY == 1
  typedef Geometry::ConformalMesh<Shape::Simplex<2>, 2, double> FamilyMesh;
#else
  typedef Geometry::ConformalMesh<Shape::Hypercube<3>, 3, double> FamilyMesh;
#endif

  struct MeshPlan { vm::MeshSpec spec; int refine; int pmax_all; bool identity_p_eq_cells; int stride_last; };

  inline int main_family(int argc, char** argv)
  {
    Runtime::ScopeGuard guard(argc, argv);
    verif::Spec spec;
    spec.property = "C13";
    spec.harness = C13_HARNESS;
    spec.rule = "case = (base mesh, joint refinements, ranks P, surjective cell->rank assignment, space in {Lagrange1, Lagrange2, CroRavRanTur, DiscontinuousP0}, "
      "vector kind in {scalar, blocked<2>}, patch numbering natural / scrambled (reversed, rotated, FEAT random permutation: mirror index arrays not ascending)); per case both send modes x 22 operations (single synchronisations; several tickets in flight; repeated use of one gate; converted / moved / cloned gates, vectors, matrices; alpha in {0,1,-1}; 2^500, denormal, all-negative, zero data; empty mirrors pushed; Splitter and Muxer incl. float conversion and the file round trip; apply_transposed incl. rectangular blocks; global size/accessor functions; asynchronous min/max; Global::MeanFilter) (incl. BCSR<2,2> and rectangular BCSR<2,3> matrices for the blocked kind) of the real Global::Gate/Vector/Matrix/Filter/PCG on P rank threads over the MPI model; "
      "per operation every MPI_Waitany answer sequence (full product of the arrival orders of all ranks; <= D deviations for the PCG run) is executed and compared with a "
      "base-level oracle. Non-trivial = P >= 2 and at least one base dof shared between patches, hashed by the case description.";
#if C13_FAMILY == 0
    spec.bounds_quick = "quads 2x2: P<=3 all assignments + the 4-rank all-neighbours assignment; 3x2: P<=2 all, P=3 every 2nd; 4x1: P<=4 all; 2x2 refined once: P=2 all, P=3 every 3rd, P=4; PCG deviations <= 2 (<= 1 with 3 neighbours)";
    spec.bounds_thorough = "quads 2x2: P<=4 all assignments; 3x2: P<=3 all; 4x1: P<=4 all; 2x2 refined once: P<=4 all; PCG deviations <= 2";
#elif C13_FAMILY == 1
    spec.bounds_quick = "triangle fans of 4 and 5 cells: P<=3 all assignments (5 cells P=3 every 3rd), 4 cells P=4; PCG deviations <= 2 (<= 1 with 3 neighbours)";
    spec.bounds_thorough = "triangle fans of 4 and 5 cells: P<=4 all assignments; fan of 4 refined once P<=3; PCG deviations <= 2";
#else
    spec.bounds_quick = "hexahedra 2x2x1: P<=3 all assignments, the 4-rank all-neighbours assignment; PCG deviations <= 1";
    spec.bounds_thorough = "hexahedra 2x2x1: P<=4 all assignments; 2x1x1 refined once P=2; PCG deviations <= 2";
#endif
    spec.assumptions = {
      "MPI behaves as modelled by engine/minimpi (bound to the standard by c13_minimpi_selftest): deterministic non-overtaking matching, Waitany may return any completed request, sends complete eagerly or at the matching receive",
      "rank interleaving between MPI calls is not enumerated: ranks share no data and every Waitany answer set is taken after maximal progress of all other ranks (DESIGN 2.2)",
      "FEAT's process-global statics (MemoryPool, Statistics) are shared by the rank threads; they do not influence results",
      "patch->base dof identification uses exact vertex coordinates and Space::DofAssignment (the space layer is C15's subject)",
      "reductions are evaluated in rank order by the model; on the exact alphabet this cannot influence results",
      "coverage audit, not exercised and outside the enumerated space: the FEAT_MPI_THREAD_MULTIPLE variant of SynchScalarTicket (helper thread per reduction); Gate/Muxer/SynchMatrix for tuple and power containers "
      "(control/asm build_gate_tuple / build_muxer_tuple, SynchMatrix<PowerDiagMatrix>); VectorMirror gather/scatter for SparseVector(Blocked) (only used by the slip filter assembly); "
      "checkpoint functions of Global::Vector/Matrix (serialisation is C05); Gate::bytes-like statistics are only checked for > 0; the non-MPI dummy implementations in kernel/util/dist.cpp are compiled out in this variant"};
    spec.deadline_quick_s = 240; spec.deadline_thorough_s = 3000;

    return verif::run(spec, argc, argv, [&](verif::Ctx& c)
    {
      const bool T = c.thorough;
      {
        cpu_set_t set; CPU_ZERO(&set);
        long ncpu = sysconf(_SC_NPROCESSORS_ONLN); if(ncpu < 1) ncpu = 1;
        CPU_SET(int(c._me % ncpu), &set);
        sched_setaffinity(0, sizeof(set), &set);
      }
      if(system("mkdir -p /verif/build/scratch/c13_sync") != 0) return;
      struct Plan { vm::MeshSpec ms; int refine; int pmax; int stride3; int stride4; };  // strideN: take every n-th assignment for P=N (1 = all, 0 = only the identity-like first one with P == cells)
      std::vector<Plan> plans;
#if C13_FAMILY == 0
      plans.push_back({vm::gen_block(2, 2, 2, 0), 0, 4, 1, T ? 1 : 0});
      plans.push_back({vm::gen_block(2, 4, 1, 0), 0, 4, 1, 1});
      plans.push_back({vm::gen_block(2, 3, 2, 0), 0, 3, T ? 1 : 2, 0});
      plans.push_back({vm::gen_block(2, 2, 2, 0), 1, 4, T ? 1 : 3, T ? 1 : 0});
#elif C13_FAMILY == 1
      plans.push_back({vm::gen_star(true, 2, 4), 0, 4, 1, T ? 1 : 0});
      plans.push_back({vm::gen_star(true, 2, 5), 0, T ? 4 : 3, T ? 1 : 3, T ? 7 : 0});
      if(T) plans.push_back({vm::gen_star(true, 2, 4), 1, 3, 1, 0});
#else
      plans.push_back({vm::gen_block(3, 2, 2, 1), 0, 4, 1, T ? 1 : 0});
      if(T) plans.push_back({vm::gen_block(3, 2, 1, 1), 1, 2, 1, 0});
#endif
      // documented use of the asynchronous interface on a process without neighbours (one process, discontinuous spaces ...)
      if(c.want())
      {
        c.desc([&]{ return std::string("Global::Vector::sync_0_async() + wait() and Matrix::apply_async() + wait() on a gate without neighbours, one process"); });
        const int sig = c.run_forked([&]
        {
          typedef LAFEM::DenseVector<double, Index> V1;
          Dist::Comm comm = Dist::Comm::world();
          Global::Gate<V1, Mirror> gate(comm);
          gate.compile(V1(3));
          Global::Vector<V1, Mirror> x(&gate, V1(3, 1.0));
          auto t = x.sync_0_async();
          t.wait();
          if(x.local()(1) != 1.0) _exit(5);
        });
        c.check(sig == 0, "sync_0_async().wait() on a gate without neighbours", [&]{ return "the documented 'ticket that has to be waited upon' cannot be waited for: outcome " + std::to_string(sig) + " (6 = abort in SynchVectorTicket::wait)"; });
        c.outcome(sig == 0 ? "async ticket without neighbours ok" : "async ticket without neighbours aborts");
      }
      for(const Plan& pl : plans)
      for(int P = 1; P <= pl.pmax; ++P)
      {
        const size_t ncells = pl.ms.cells.size();
        if(size_t(P) > ncells) continue;
        std::vector<int> a;
        if(!first_assign(a, ncells, P)) continue;
        long k = 0;
        do
        {
          const long idx = k++;
          bool take = true;
          if(P == 3 && pl.stride3 > 1) take = (idx % pl.stride3) == 0;
          if(P == 4) { if(pl.stride4 == 0) { bool ident = (ncells == 4); for(size_t i = 0; i < ncells && ident; ++i) ident = (a[i] == int(i)); take = ident; } else take = (idx % pl.stride4) == 0; }
          if(!take) continue;
          for(int space = 0; space < sp_count; ++space)
          for(int bs = 1; bs <= 2; ++bs)
          for(int rn = 0; rn < 2; ++rn)
          {
            if(!c.want()) continue;
            Cfg cf; cf.mesh = pl.ms; cf.refine = pl.refine; cf.P = P; cf.assign = a; cf.space = space; cf.bs = bs;
            cf.renum = (rn == 0) ? 0 : 1 + int((idx + space + bs) % 3);   // every configuration also with a scrambled patch numbering
            c.desc([&]{ return cf.str(); });
            Bounds bd;
            bd.pcg_dev = 2;
            bd.max_exec = T ? 200000 : 20000;
            int maxnb_possible = P - 1;
            if(!T && maxnb_possible >= 3) bd.pcg_dev = 1;
#if C13_FAMILY == 2
            if(!T) bd.pcg_dev = 1;
#endif
            bd.multi_dev = T ? 2 : 1;
            bd.alternate_modes = !T;
            bd.thread_check = (c.index() % 16) == 5;
            bd.thread_exec = T ? 20000 : 1500;
            const double t0 = c.now();
            run_case<FamilyMesh>(c, cf, bd);
            if(c.now() - t0 > 5.0) fprintf(stderr, "SLOW %.1fs %s\n", c.now() - t0, cf.str().c_str());
          }
        } while(next_assign(a, P));
      }
    });
  }
} // namespace c13
