// c16_operators_impl.hpp -- C16: the operator classes of kernel/assembly/common_operators.hpp and the functionals of
// common_functionals.hpp that the other C16 harnesses do not reach: StressDivergenceOperator<dim,nsc>,
// StrainRateTensorOperator<dim,nsc> (all four documented (dim,nsc) combinations, every matrix component K(i,j)
// separately), LaplaceBeltramiOperator (flat meshes), Gradient{Trial,Test}OperatorBlocked on the job route, and the
// vector valued Force/Laplace functionals. Classic assembler and DomainAssembler job (0 threads) against the exact
// integral of the formula written from the DOCUMENTATION of the operator (stress component layouts as documented).
#pragma once
#include <c16_blocked_impl.hpp>

#include <kernel/assembly/common_functionals.hpp>
#include <kernel/assembly/linear_functional_assembler.hpp>

namespace c16o
{
  using namespace FEAT;
  using namespace c16;
  using namespace c16b;

  /// documented layout of the stress components: component c <-> tensor index (i,j); symmetric layouts store ij == ji once
  ///  (2,4): 11 12 21 22      (2,3): 11 22 12      (3,9): 11 12 13 21 22 23 31 32 33      (3,6): 11 22 33 12 23 13
  template<int dim_, int nsc_>
  struct StressLayout
  {
    static constexpr bool symmetric = (nsc_ < dim_ * dim_);
    static void index(int c, int& i, int& j)
    {
      if(!symmetric) { i = c / dim_; j = c % dim_; return; }
      if(dim_ == 2) { static const int t[3][2] = {{0, 0}, {1, 1}, {0, 1}}; i = t[c][0]; j = t[c][1]; return; }
      static const int t[6][2] = {{0, 0}, {1, 1}, {2, 2}, {0, 1}, {1, 2}, {0, 2}};
      i = t[c][0]; j = t[c][1];
    }
  };

  template<typename Shape_, typename Velo_, typename Stress_>
  struct OperatorChecker
  {
    static constexpr int D = Shape_::dimension;
    typedef typename MeshCtx<Shape_>::MeshType MeshType;
    typedef Trafo::Standard::Mapping<MeshType> TrafoType;
    typedef typename Velo_::template Space<TrafoType> VeloSpace;
    typedef typename Stress_::template Space<TrafoType> StressSpace;

    verif::Ctx& c;
    MeshCtx<Shape_>& mc;
    std::string kp;
    TrafoType trafo;
    VeloSpace velo;
    StressSpace stress;
    std::vector<Poly<D>> mv, msg;     // monomials of the velocity / stress space
    std::unique_ptr<Assembly::DomainAssembler<TrafoType>> dom_asm;
    String cub;

    OperatorChecker(verif::Ctx& c_, MeshCtx<Shape_>& mc_) : c(c_), mc(mc_), trafo(*mc_.mesh), velo(trafo), stress(trafo)
    {
      kp = std::string(ShapeInfo<Shape_>::name()) + " " + Velo_::name() + "/" + Stress_::name();
      mv = monomials<D>(exps_total_degree<D>(Velo_::pk));
      msg = monomials<D>(exps_total_degree<D>(Stress_::pk));
      dom_asm.reset(new Assembly::DomainAssembler<TrafoType>(trafo));
      dom_asm->set_max_worker_threads(0);
      dom_asm->compile_all_elements();
      const int extra = mc.affine ? 0 : D - 1;
      const int deg = Velo_::deg + Stress_::deg + extra;
      cub = ShapeInfo<Shape_>::is_simplex ? String("auto-degree:") + stringify(std::max(deg, 1)) : String("gauss-legendre:") + stringify(deg / 2 + 1);
    }

    /// single component blocked interpolant: e_comp * m in a space with N components
    template<int N, typename Space_>
    BVec<N> comp_vec(const Space_& space, const Poly<D>& m, int comp) const
    {
      std::array<Poly<D>, N> f;
      f[(size_t)comp] = m;
      PolyVectorFunction<D, N> pf(f);
      BVec<N> v;
      Assembly::Interpolator::project(v, pf, space);
      return v;
    }

    /// checks every component (r,q) of a BCSR<BH,BW> matrix A (rows: row_space with BH comps, cols: col_space with BW
    /// comps): y=e_r*m_a, x=e_q*m_b; integrand(r, q, m_row, m_col)
    template<int BH, int BW, typename RowSpace_, typename ColSpace_, typename Form_>
    void check_components(const std::string& key, const BCSR<BH, BW>& A, const RowSpace_& rs, const std::vector<Poly<D>>& rm,
      const ColSpace_& cs, const std::vector<Poly<D>>& cm, const Form_& form)
    {
      std::vector<std::vector<BVec<BH>>> yv((size_t)BH);
      std::vector<std::vector<BVec<BW>>> xv((size_t)BW);
      for(int r = 0; r < BH; ++r) for(auto& m : rm) yv[(size_t)r].push_back(comp_vec<BH>(rs, m, r));
      for(int q = 0; q < BW; ++q) for(auto& m : cm) xv[(size_t)q].push_back(comp_vec<BW>(cs, m, q));
      for(int r = 0; r < BH; ++r) for(int q = 0; q < BW; ++q)
      {
        bool failed = false;
        for(size_t a = 0; a < rm.size() && !failed; ++a) for(size_t b = 0; b < cm.size() && !failed; ++b)
        {
          Poly<D> in = form(r, q, rm[a], cm[b]);
          LD ex = mc.integrate(in), sa = mc.integrate_abs(in), sc = 0;
          LD got = bilinear_b<BH, BW>(A, yv[(size_t)r][a], xv[(size_t)q][b], &sc);
          c.count("oracle_integrals");
          // an uninitialised component may be anything, including NaN: the comparison is written so that NaN fails
          if(!(std::fabs(got - ex) <= LD(1e-10) * (sc + sa + LD(1e-30))))
          {
            char buf[200]; snprintf(buf, sizeof buf, "assembled %.12Lg, exact integral %.12Lg", got, ex);
            c.fail(key + " K(" + std::to_string(r) + "," + std::to_string(q) + ")", std::string(buf) + " for row function [" + rm[a].str() + "] col function [" + cm[b].str() + "], cubature " + std::string(cub));
            failed = true;
          }
        }
      }
    }

    // ------------------------------------------------------------------ stress divergence / strain rate tensor
    template<int nsc_>
    void check_stress_operators()
    {
      typedef StressLayout<D, nsc_> Lay;
      const std::string tag = "<" + std::to_string(D) + "," + std::to_string(nsc_) + ">";
      Cubature::DynamicFactory cf(cub);
      // StressDivergenceOperator: test = velocity (value), trial = stress (grad): w^T A sigma = int w . div(sigma),
      // (div sigma)_i = sum_j d_j sigma_ij
      {
        Assembly::Common::StressDivergenceOperator<D, nsc_> op;
        BCSR<D, nsc_> A, B;
        Assembly::SymbolicAssembler::assemble_matrix_std2(A, velo, stress);
        Assembly::SymbolicAssembler::assemble_matrix_std2(B, velo, stress);
        A.format(); B.format();
        Assembly::BilinearOperatorAssembler::assemble_matrix2(A, op, velo, stress, cf);
        Assembly::assemble_bilinear_operator_matrix_2(*dom_asm, B, op, velo, stress, cub);
        c.count("matrices_assembled", 2);
        check_components<D, nsc_>(kp + " stress-divergence" + tag, A, velo, mv, stress, msg,
          [](int r, int q, const Poly<D>& w, const Poly<D>& s)
          {
            int i, j; Lay::index(q, i, j);
            Poly<D> in;
            if(r == i) in += w * s.diff(j);
            if(Lay::symmetric && i != j && r == j) in += w * s.diff(i);
            return in;
          });
        bool lay = false;
        double d = max_rel_diff_b<D, nsc_>(A, B, &lay);
        c.check(lay && d <= 1e-12, kp + " stress-divergence" + tag + " route.job", [&]{ return "DomainAssembler job differs from the classic assembler by " + std::to_string(d); });
      }
      // StrainRateTensorOperator: test = stress (value), trial = velocity (grad): tau^T K u = int sum_c tau_c D(u)_c,
      // D(u)_ij = 1/2 (d_j u_i + d_i u_j), every stored component once
      {
        Assembly::Common::StrainRateTensorOperator<D, nsc_> op;
        BCSR<nsc_, D> A, B;
        Assembly::SymbolicAssembler::assemble_matrix_std2(A, stress, velo);
        Assembly::SymbolicAssembler::assemble_matrix_std2(B, stress, velo);
        A.format(); B.format();
        Assembly::BilinearOperatorAssembler::assemble_matrix2(A, op, stress, velo, cf);
        Assembly::assemble_bilinear_operator_matrix_2(*dom_asm, B, op, stress, velo, cub);
        c.count("matrices_assembled", 2);
        check_components<nsc_, D>(kp + " strain-rate" + tag, A, stress, msg, velo, mv,
          [](int r, int q, const Poly<D>& t, const Poly<D>& u)
          {
            int i, j; Lay::index(r, i, j);
            Poly<D> in;
            if(q == i) in += t * u.diff(j) * LD(0.5);
            if(q == j) in += t * u.diff(i) * LD(0.5);
            return in;
          });
        // route agreement: NaN-safe comparison of all entries
        bool lay = false;
        double d = max_rel_diff_b<nsc_, D>(A, B, &lay);
        c.check(lay && d <= 1e-12, kp + " strain-rate" + tag + " route.job", [&]{ return "DomainAssembler job differs from the classic assembler by " + std::to_string(d); });
      }
    }

    // ------------------------------------------------------------------ Laplace-Beltrami on a flat mesh == Laplace
    void check_laplace_beltrami()
    {
      const std::string k = kp + " laplace-beltrami";
      const int ldeg = 2 * Velo_::deg + (mc.affine ? 0 : D - 1);
      const String cub = ShapeInfo<Shape_>::is_simplex ? String("auto-degree:") + stringify(std::max(ldeg, 1)) : String("gauss-legendre:") + stringify(ldeg / 2 + 1);
      Cubature::DynamicFactory cf(cub);
      Assembly::Common::LaplaceBeltramiOperator op;
      CSR A, B;
      Assembly::SymbolicAssembler::assemble_matrix_std1(A, velo);
      B = A.clone(LAFEM::CloneMode::Layout);
      A.format(); B.format();
      Assembly::BilinearOperatorAssembler::assemble_matrix1(A, op, velo, cf);
      Assembly::assemble_bilinear_operator_matrix_1(*dom_asm, B, op, velo, cub);
      c.count("matrices_assembled", 2);
      auto vs = interpolate_all(velo, mv);
      for(size_t a = 0; a < mv.size(); ++a) for(size_t b = 0; b < mv.size(); ++b)
      {
        Poly<D> in; for(int j = 0; j < D; ++j) in += mv[a].diff(j) * mv[b].diff(j);
        LD sc = 0, got = bilinear(A, vs[b], vs[a], &sc), ex = mc.integrate(in);
        c.count("oracle_integrals");
        if(!(std::fabs(got - ex) <= LD(1e-10) * (sc + mc.integrate_abs(in) + LD(1e-30))))
        { c.fail(k + " oracle", "v^T A u = " + std::to_string(double(got)) + ", exact " + std::to_string(double(ex)) + " for u=[" + mv[a].str() + "] v=[" + mv[b].str() + "]"); break; }
      }
      bool lay = false, bit = false;
      double d = max_rel_diff(A, B, &lay, &bit);
      c.check(lay && d <= 1e-12, k + " route.job", [&]{ return "DomainAssembler job differs from the classic assembler by " + std::to_string(d); });
    }

    // ------------------------------------------------------------------ blocked gradient operators on the job route
    void check_gradient_blocked_jobs()
    {
      Cubature::DynamicFactory cf(cub);
      {
        Assembly::Common::GradientTrialOperatorBlocked<D> op;
        BCSR<D, 1> A, B;
        Assembly::SymbolicAssembler::assemble_matrix_std2(A, velo, stress);
        Assembly::SymbolicAssembler::assemble_matrix_std2(B, velo, stress);
        A.format(); B.format();
        Assembly::BilinearOperatorAssembler::assemble_matrix2(A, op, velo, stress, cf);
        Assembly::assemble_bilinear_operator_matrix_2(*dom_asm, B, op, velo, stress, cub);
        // documented: a(phi,psi)_m = int (grad phi, psi e_m): w^T A p = int grad p . w
        check_components<D, 1>(kp + " gradient-trial-blocked", A, velo, mv, stress, msg,
          [](int r, int, const Poly<D>& w, const Poly<D>& p) { return w * p.diff(r); });
        bool lay = false;
        double d = max_rel_diff_b<D, 1>(A, B, &lay);
        c.check(lay && d <= 1e-12, kp + " gradient-trial-blocked route.job", [&]{ return "job differs by " + std::to_string(d); });
      }
      {
        Assembly::Common::GradientTestOperatorBlocked<D> op;
        BCSR<D, 1> A, B;
        Assembly::SymbolicAssembler::assemble_matrix_std2(A, velo, stress);
        Assembly::SymbolicAssembler::assemble_matrix_std2(B, velo, stress);
        A.format(); B.format();
        Assembly::BilinearOperatorAssembler::assemble_matrix2(A, op, velo, stress, cf);
        Assembly::assemble_bilinear_operator_matrix_2(*dom_asm, B, op, velo, stress, cub);
        // documented: a(phi,psi)_m = int (phi e_m, grad psi): w^T A p = int p d_m w_m
        check_components<D, 1>(kp + " gradient-test-blocked", A, velo, mv, stress, msg,
          [](int r, int, const Poly<D>& w, const Poly<D>& p) { return p * w.diff(r); });
        bool lay = false;
        double d = max_rel_diff_b<D, 1>(A, B, &lay);
        c.check(lay && d <= 1e-12, kp + " gradient-test-blocked route.job", [&]{ return "job differs by " + std::to_string(d); });
      }
    }

    // ------------------------------------------------------------------ vector valued functionals
    void check_vector_functionals()
    {
      const std::string k = kp + " functional-blocked";
      Field<D> f;
      for(int i = 0; i < D; ++i)
      {
        f[(size_t)i] = Poly<D>(LD(0.25 * (i + 1)));
        for(int j = 0; j < D; ++j) f[(size_t)i] += Poly<D>::var(j) * LD(0.5 * ((i + 2 * j) % 3 + 1)) + Poly<D>::var(j) * Poly<D>::var((i + j) % D) * LD(0.125 * (j + 1));
      }
      PolyVectorFunction<D, D> ff(f);
      Assembly::Common::ForceFunctional<PolyVectorFunction<D, D>> force(ff);
      Assembly::Common::LaplaceFunctional<PolyVectorFunction<D, D>> lapl(ff);
      const int extra = mc.affine ? 0 : D - 1;
      const int deg = Velo_::deg + 2 + extra;
      const String cn = ShapeInfo<Shape_>::is_simplex ? String("auto-degree:") + stringify(deg) : String("gauss-legendre:") + stringify(deg / 2 + 1);
      Cubature::DynamicFactory cf(cn);
      BVec<D> b1(velo.get_num_dofs()), b2(velo.get_num_dofs()), b3(velo.get_num_dofs()), b4(velo.get_num_dofs()), b5(velo.get_num_dofs());
      b1.format(); b2.format(); b3.format(); b4.format(); b5.format();
      Assembly::LinearFunctionalAssembler::assemble_vector(b1, force, velo, cf);
      Assembly::assemble_linear_functional_vector(*dom_asm, b2, force, velo, cn);
      Assembly::assemble_force_function_vector(*dom_asm, b3, ff, velo, cn);
      Assembly::LinearFunctionalAssembler::assemble_vector(b4, lapl, velo, cf);
      Assembly::assemble_linear_functional_vector(*dom_asm, b5, lapl, velo, cn);
      c.count("vectors_assembled", 5);
      for(int comp = 0; comp < D; ++comp) for(size_t a = 0; a < mv.size(); ++a)
      {
        BVec<D> w = comp_vec<D>(velo, mv[a], comp);
        Poly<D> in1 = f[(size_t)comp] * mv[a], lap;
        for(int j = 0; j < D; ++j) lap -= f[(size_t)comp].diff(j).diff(j);
        Poly<D> in2 = lap * mv[a];
        LD e1 = mc.integrate(in1), e2 = mc.integrate(in2), g[5] = {0, 0, 0, 0, 0}, sc = 0;
        const BVec<D>* bs[5] = {&b1, &b2, &b3, &b4, &b5};
        for(Index i = 0; i < w.size(); ++i) for(int m = 0; m < D; ++m) for(int v = 0; v < 5; ++v) { LD t = LD(w(i)[m]) * LD((*bs[v])(i)[m]); g[v] += t; if(v == 0 || v == 3) sc += std::fabs(t); }
        LD tol = LD(1e-10) * (sc + mc.integrate_abs(in1) + mc.integrate_abs(in2) + LD(1e-30));
        static const char* names[5] = {"force.classic", "force.job", "force.force-job", "laplace.classic", "laplace.job"};
        c.count("oracle_integrals", 5);
        for(int v = 0; v < 5; ++v)
        {
          LD ex = v < 3 ? e1 : e2;
          if(!(std::fabs(g[v] - ex) <= tol))
          { c.fail(k + " " + names[v], "component " + std::to_string(comp) + " w=[" + mv[a].str() + "]: w^T b = " + std::to_string(double(g[v])) + ", exact " + std::to_string(double(ex))); return; }
        }
      }
    }

    void run()
    {
      if constexpr(D == 2) { check_stress_operators<3>(); check_stress_operators<4>(); }
      if constexpr(D == 3) { check_stress_operators<6>(); check_stress_operators<9>(); }
      check_laplace_beltrami();
      check_gradient_blocked_jobs();
      check_vector_functionals();
    }
  };

  template<typename Shape_>
  void enumerate_op_shape(verif::Ctx& c)
  {
    const std::string sn = ShapeInfo<Shape_>::name();
    auto fam = mesh_family<Shape_>(c.thorough);
    for(size_t im = 0; im < fam.size(); ++im)
    {
      const MeshSpec& ms = fam[im];
      // the operators are local: a third of the family (every geometry, 1-cell, 2-cell, refined) keeps the quick tier short
      if(!c.thorough && Shape_::dimension == 3 && (im % 3) != 0) continue;
      auto one = [&](const char* pair, auto fn)
      {
        if(!c.want()) return;
        c.desc([&]{ return sn + " " + pair + " mesh " + ms.str(); });
        MeshCtx<Shape_> mc = make_mesh<Shape_>(ms);
        fn(mc);
        c.nontrivial(verif::Hash().str(sn).str(pair).str(ms.str()).get());
        c.outcome(sn + " " + pair);
        c.count("cases");
        c.count("cells", mc.geoms.size());
      };
      one("L2/L1", [&](MeshCtx<Shape_>& mc) { OperatorChecker<Shape_, VL2, VL1>(c, mc).run(); });
      one("L1/P1dc", [&](MeshCtx<Shape_>& mc) { OperatorChecker<Shape_, VL1, PP1>(c, mc).run(); });
    }
  }

  template<bool three_d>
  int operators_main(int argc, char** argv, const char* harness_name)
  {
    Runtime::ScopeGuard guard(argc, argv);
    verif::Spec spec;
    spec.property = "C16";
    spec.harness = harness_name;
    spec.rule = "cases = (shape, mesh of the c16 family, velocity/stress element pair in {L2/L1, L1/P1dc}); per case: StressDivergenceOperator<dim,nsc> and "
      "StrainRateTensorOperator<dim,nsc> for all documented (dim,nsc) in {(2,3),(2,4)} resp. {(3,6),(3,9)}: every matrix component K(r,q) separately, row function "
      "e_r*m_a, column function e_q*m_b for all in-space monomials, against the exact integral of the formula written from the operator documentation "
      "(stress layouts 11 12 21 22 / 11 22 12 / row-major 3x3 / 11 22 33 12 23 13; div(sigma)_i = sum_j d_j sigma_ij; D(u) = 1/2(grad u + grad u^T)); "
      "LaplaceBeltramiOperator on the flat mesh (== Laplace); Gradient{Trial,Test}OperatorBlocked per component; vector valued Force/Laplace functionals "
      "per component; each on the classic assembler and the DomainAssembler job (0 threads). Non-trivial: every case.";
    spec.bounds_quick = "this binary: tria/quad (c16_operators) resp. tetra/hexa (c16_operators3d, every third mesh of the family)";
    spec.bounds_thorough = "3D: the full (thorough) mesh family";
    spec.assumptions = {
      "LaplaceBeltramiOperator only on flat meshes (world dim == shape dim), where it must equal the Laplace operator; surface meshes are not generated",
      "oracle integrates polynomials only (see c16_assembly)"};
    spec.max_fail_per_worker = 100000;
    return verif::run(spec, argc, argv, [&](verif::Ctx& c) {
      if constexpr(!three_d) { enumerate_op_shape<Shape::Simplex<2>>(c); enumerate_op_shape<Shape::Hypercube<2>>(c); }
      else { enumerate_op_shape<Shape::Simplex<3>>(c); enumerate_op_shape<Shape::Hypercube<3>>(c); }
    });
  }
} // namespace c16o
