// C16 remaining operator classes of common_operators.hpp / common_functionals.hpp on tria/quad; see c16_operators_impl.hpp.
#include <c16_operators_impl.hpp>
int main(int argc, char** argv) { return c16o::operators_main<false>(argc, argv, "c16_operators"); }
