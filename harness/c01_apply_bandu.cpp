// C01 (part 2b): SparseMatrixBanded mat-vec products in the FEAT_UNROLL_BANDED *configuration* of the kernel
// (Arch::Apply::banded_generic dispatches 3, 5, 9 and 25 offsets to the unrolled Iteration_Right/Left templates;
// the baseline build does not define the switch, so c01_apply_blk covers the generic loop for the same inputs).
#define FEAT_UNROLL_BANDED 1
#include <c01_common.hpp>
#include <c01_banded.hpp>

using namespace c01;

int main(int argc, char** argv)
{
  FEAT::Runtime::ScopeGuard guard(argc, argv);
  verif::Spec spec; spec.property = "C01"; spec.harness = "c01_apply_bandu"; spec.case_timeout_s = 120;
  spec.rule = "case = (type pair, shape, one of ALL subsets of the m+n-1 diagonals whose size selects an unrolled kernel (3,5,9,25), padding content, "
    "variant (4 alphabets on a fresh object / scenarios: other calls first, sub-range views, clones, moved, index-type round trip), operation {r:=Ax, r:=y+aAx r!=y, r==y}, alpha); every operation repeated on the filled objects; non-trivial = |alpha|>=eps; hash over all of these";
  spec.bounds_quick = "FEAT_UNROLL_BANDED defined; shapes {1..4}^2 with 3 or 5 offsets, 5x5,5x6,6x5,6x6 with 9 offsets; (double,u64),(float,u32); 9 scalars; up to 12 variants per pattern";
  spec.bounds_thorough = "quick + shapes {1..6}^2 with 3,5,9 offsets (double,u32 too) + 13x13, 13x14, 14x13 with 25 offsets (full / full minus one diagonal)";
  spec.assumptions = {
    "configuration switch FEAT_UNROLL_BANDED is set by the harness TU (header-only kernel), nothing in /repo is changed",
    "oracle: dense long double product; exact alphabet compared with ==; rounding alphabet: 8(len+2) eps (|A||x| max(1,|alpha|)+|y|)",
    "excluded: r aliasing x; apply_transposed (not implemented in the generic backend)"};
  return verif::run(spec, argc, argv, [&](verif::Ctx& c) {
    std::vector<std::pair<int, int>> s35, s9, s25;
    const int maxd = c.thorough ? 6 : 4;
    for(int s = 2; s <= 2 * maxd; ++s) for(int m = 1; m <= maxd; ++m) { int n = s - m; if(n >= 1 && n <= maxd) s35.push_back({m, n}); }
    s9 = {{5, 5}, {5, 6}, {6, 5}, {6, 6}};
    s25 = {{13, 13}, {13, 14}, {14, 13}};
    auto f35 = [&](int k){ return k == 3 || k == 5 || (c.thorough && k == 9); };
    auto f9 = [](int k){ return k == 9; };
    auto f25 = [](int k){ return k == 25; };
    enum_banded<double, std::uint64_t>(c, s35, "[unrolled]", f35);
    enum_banded<float, std::uint32_t>(c, s35, "[unrolled]", f35);
    if(c.thorough) enum_banded<double, std::uint32_t>(c, s35, "[unrolled]", f35);
    if(!c.thorough) { enum_banded<double, std::uint64_t>(c, s9, "[unrolled]", f9); enum_banded<float, std::uint32_t>(c, s9, "[unrolled]", f9); }
    if(c.thorough) { enum_banded<double, std::uint64_t>(c, s25, "[unrolled]", f25); enum_banded<float, std::uint32_t>(c, s25, "[unrolled]", f25); }
  });
}
