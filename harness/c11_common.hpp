// c11_common.hpp -- shared by c11_faults.cpp and c11_roundtrip.cpp (property C11).
//
// * parse_mesh(): what an application does with a mesh file text: MeshFileReader on a stream, read_root_markup(),
//   dispatch on the 'mesh' attribute to the mesh type, parse(node, atlas, &partition_set) (which runs the linker),
//   and classification of the way it terminated.
// * canon(): an independent structural dump of (node, atlas, partitions) that does not use MeshFileWriter
//   (index sets, target sets, attributes, names, partitions read through the container APIs; reals with %.6g).
#pragma once
#include <verif.hpp>
#include <kernel/runtime.hpp>
#include <kernel/geometry/mesh_file_reader.hpp>
#include <kernel/geometry/mesh_file_writer.hpp>
#include <kernel/geometry/partition_set.hpp>
#include <kernel/util/property_map.hpp>

#include <algorithm>
#include <cmath>
#include <cstdio>
#include <fstream>
#include <sstream>
#include <string>
#include <typeinfo>
#include <vector>

namespace c11
{
  using namespace FEAT;
  using namespace FEAT::Geometry;

  typedef ConformalMesh<Shape::Hypercube<1>, 1, double> MeshH1;
  typedef ConformalMesh<Shape::Hypercube<2>, 2, double> MeshH2;
  typedef ConformalMesh<Shape::Hypercube<3>, 3, double> MeshH3;
  typedef ConformalMesh<Shape::Simplex<2>, 2, double> MeshS2;
  typedef ConformalMesh<Shape::Simplex<3>, 3, double> MeshS3;

  enum Kind
  {
    K_OK = 0,
    K_SYNTAX,      // Xml::SyntaxError
    K_GRAMMAR,     // Xml::GrammarError
    K_CONTENT,     // Xml::ContentError
    K_LINKER,      // Geometry::MeshNodeLinkerError
    K_FILE,        // FEAT::FileError / ParseError / SyntaxError (property map)
    K_BADTYPE,     // the harness' dispatch does not know the mesh type string (an application would refuse as well)
    K_RESOURCE,    // std::bad_alloc / std::length_error (a count the machine cannot hold)
    K_FEAT_OTHER,  // some other FEAT::Exception (undocumented for the parser)
    K_STD_OTHER,   // some other std::exception (undocumented)
    K_UNKNOWN      // thrown something else
  };

  inline const char* kind_name(Kind k)
  {
    switch(k)
    {
    case K_OK: return "parsed";
    case K_SYNTAX: return "Xml::SyntaxError";
    case K_GRAMMAR: return "Xml::GrammarError";
    case K_CONTENT: return "Xml::ContentError";
    case K_LINKER: return "MeshNodeLinkerError";
    case K_FILE: return "FileError/ParseError/SyntaxError";
    case K_BADTYPE: return "unsupported-mesh-type";
    case K_RESOURCE: return "std::bad_alloc/length_error";
    case K_FEAT_OTHER: return "other FEAT::Exception";
    case K_STD_OTHER: return "other std::exception";
    default: return "unknown exception";
    }
  }
  inline bool documented(Kind k) { return k >= K_SYNTAX && k <= K_BADTYPE; }
  inline bool rejected_cleanly(Kind k) { return documented(k) || k == K_RESOURCE; }

  struct Parsed
  {
    Kind kind = K_UNKNOWN;
    std::string what;      // exception text
    std::string type;      // mesh type string used
    std::string written;   // MeshFileWriter output (if requested and parsed)
    std::string canon;     // independent structural dump (if requested and parsed)
  };

  inline std::string g6(double v) { char b[64]; snprintf(b, sizeof b, "%.6g", v); return std::string(b); }

  // ---------------------------------------------------------------------------------------------- canonical dump
  template<typename Shape_, int d_ = Shape_::dimension>
  struct TopoDump
  {
    static void go(std::ostream& os, const IndexSetHolder<Shape_>& ish)
    {
      TopoDump<Shape_, d_ - 1>::go(os, ish);
      const auto& is = ish.template get_index_set<d_, 0>();
      os << " topo" << d_ << "[" << is.get_num_entities() << "]:";
      for(Index i = 0; i < is.get_num_entities(); ++i) { os << (i ? "|" : ""); for(int j = 0; j < is.num_indices; ++j) os << (j ? "," : "") << is[i][j]; }
      os << "\n";
    }
  };
  template<typename Shape_> struct TopoDump<Shape_, 0> { static void go(std::ostream&, const IndexSetHolder<Shape_>&) {} };

  template<typename Shape_, int d_ = Shape_::dimension>
  struct TargetDump
  {
    static void go(std::ostream& os, const TargetSetHolder<Shape_>& tsh)
    {
      TargetDump<Shape_, d_ - 1>::go(os, tsh);
      const auto& ts = tsh.template get_target_set<d_>();
      os << " map" << d_ << "[" << ts.get_num_entities() << "]:";
      for(Index i = 0; i < ts.get_num_entities(); ++i) os << (i ? "," : "") << ts[i];
      os << "\n";
    }
  };
  template<typename Shape_> struct TargetDump<Shape_, -1> { static void go(std::ostream&, const TargetSetHolder<Shape_>&) {} };

  template<typename Mesh_>
  std::string canon(const RootMeshNode<Mesh_>& node, const MeshAtlas<Mesh_>& atlas, const PartitionSet& ps, bool skip_internal = true)
  {
    typedef typename Mesh_::ShapeType ShapeType;
    std::ostringstream os;
    // charts: name, type and the chart's own description
    for(auto& n : atlas.get_chart_names())
    {
      const auto* ch = atlas.find_mesh_chart(n);
      os << "chart '" << n << "' type=" << (ch ? std::string(ch->get_type()) : std::string("<null>")) << "\n";
      if(ch) { std::ostringstream cs; ch->write(cs, ""); os << cs.str(); }
    }
    const Mesh_* mesh = node.get_mesh();
    if(mesh)
    {
      os << "mesh sizes:";
      for(int d = 0; d <= Mesh_::shape_dim; ++d) os << " " << mesh->get_num_entities(d);
      os << "\n verts:";
      const auto& vs = mesh->get_vertex_set();
      for(Index i = 0; i < vs.get_num_vertices(); ++i) { os << (i ? "|" : ""); for(int j = 0; j < Mesh_::world_dim; ++j) os << (j ? "," : "") << g6(vs[i][j]); }
      os << "\n";
      TopoDump<ShapeType>::go(os, mesh->get_index_set_holder());
    }
    for(auto& n : node.get_mesh_part_names())
    {
      if(skip_internal && !n.empty() && n.front() == '_') continue;
      const auto* mp = node.find_mesh_part(n);
      os << "part '" << n << "' chart='" << node.find_mesh_part_chart_name(n) << "' topo=" << (mp->has_topology() ? 1 : 0) << " sizes:";
      for(int d = 0; d <= Mesh_::shape_dim; ++d) os << " " << mp->get_num_entities(d);
      os << "\n";
      TargetDump<ShapeType>::go(os, mp->get_target_set_holder());
      if(mp->has_topology()) TopoDump<ShapeType>::go(os, *mp->get_topology());
      for(auto& a : mp->get_mesh_attributes())
      {
        os << " attr '" << a.first << "' dim=" << a.second->get_dimension() << " n=" << a.second->get_num_values() << ":";
        for(Index i = 0; i < a.second->get_num_values(); ++i) { os << (i ? "|" : ""); for(int j = 0; j < a.second->get_dimension(); ++j) os << (j ? "," : "") << g6((*a.second)(i, j)); }
        os << "\n";
      }
    }
    for(auto& p : ps.get_partitions())
    {
      os << "partition '" << p.get_name() << "' prio=" << p.get_priority() << " level=" << p.get_level() << " size=" << p.get_num_patches() << "x" << p.get_num_elements() << ":";
      const Adjacency::Graph& g = p.get_patches();
      for(Index i = 0; i < g.get_num_nodes_domain(); ++i) { os << (i ? "|" : ""); bool f = true; for(auto it = g.image_begin(i); it != g.image_end(i); ++it) { os << (f ? "" : ",") << *it; f = false; } }
      os << "\n";
    }
    return os.str();
  }

  // ---------------------------------------------------------------------------------------------- phase marker
  enum Phase { PH_NONE = 0, PH_ROOT = 1, PH_SCAN = 2, PH_LINK = 3, PH_WRITE = 4, PH_CANON = 5, PH_DESTROY = 6 };
  inline volatile int*& phase_ptr() { static int local = 0; static volatile int* p = &local; return p; }
  inline int& phase_base() { static int b = 0; return b; }          // 0 = first parse of a case, 10 = re-parse of the written text
  inline void set_phase(int ph) { *phase_ptr() = phase_base() + ph; }

  // ---------------------------------------------------------------------------------------------- typed parse
  template<typename Mesh_>
  void parse_typed(MeshFileReader& reader, Parsed& out, bool want_written, bool want_canon)
  {
    MeshAtlas<Mesh_> atlas;
    RootMeshNode<Mesh_> node(nullptr, &atlas);
    PartitionSet ps;
    // exactly what MeshFileReader::parse(node, atlas, part_set) does, with a phase marker in between so that a
    // harness can tell in which stage a child process died without relying on the sanitizer's wording
    MeshNodeLinker<Mesh_> linker(node, atlas);
    set_phase(PH_SCAN);
    reader.parse(linker, node, atlas, &ps);
    set_phase(PH_LINK);
    linker.execute();
    if(want_written)
    {
      set_phase(PH_WRITE);
      std::ostringstream os;
      MeshFileWriter writer(os);
      writer.write(&node, &atlas, &ps);
      out.written = os.str();
    }
    if(want_canon) { set_phase(PH_CANON); out.canon = canon(node, atlas, ps); }
    set_phase(PH_DESTROY);
  }

  /// the application-level entry: text -> outcome
  inline Parsed parse_mesh(const std::string& text, const std::string& default_type, bool want_written, bool want_canon,
    const std::vector<const std::string*>& companions = std::vector<const std::string*>())
  {
    Parsed out;
    try
    {
      std::istringstream iss(text);
      std::vector<std::unique_ptr<std::istringstream>> more;
      MeshFileReader reader;
      for(auto* c : companions) { more.emplace_back(new std::istringstream(*c)); reader.add_stream(*more.back()); }
      reader.add_stream(iss);
      set_phase(PH_ROOT);
      reader.read_root_markup();
      std::string type = std::string(reader.get_meshtype_string());
      if(type.empty()) type = default_type;
      out.type = type;
      if(type == "conformal:hypercube:1:1") parse_typed<MeshH1>(reader, out, want_written, want_canon);
      else if(type == "conformal:hypercube:2:2") parse_typed<MeshH2>(reader, out, want_written, want_canon);
      else if(type == "conformal:hypercube:3:3") parse_typed<MeshH3>(reader, out, want_written, want_canon);
      else if(type == "conformal:simplex:2:2") parse_typed<MeshS2>(reader, out, want_written, want_canon);
      else if(type == "conformal:simplex:3:3") parse_typed<MeshS3>(reader, out, want_written, want_canon);
      else { out.kind = K_BADTYPE; out.what = type; return out; }
      out.kind = K_OK;
    }
    catch(const Xml::SyntaxError& e) { out.kind = K_SYNTAX; out.what = e.what(); }
    catch(const Xml::GrammarError& e) { out.kind = K_GRAMMAR; out.what = e.what(); }
    catch(const Xml::ContentError& e) { out.kind = K_CONTENT; out.what = e.what(); }
    catch(const MeshNodeLinkerError& e) { out.kind = K_LINKER; out.what = e.what(); }
    catch(const FEAT::FileError& e) { out.kind = K_FILE; out.what = e.what(); }
    catch(const FEAT::ParseError& e) { out.kind = K_FILE; out.what = e.what(); }
    catch(const FEAT::Exception& e) { out.kind = K_FEAT_OTHER; out.what = std::string(typeid(e).name()) + ": " + e.what(); }
    catch(const std::bad_alloc& e) { out.kind = K_RESOURCE; out.what = e.what(); }
    catch(const std::length_error& e) { out.kind = K_RESOURCE; out.what = e.what(); }
    catch(const std::exception& e) { out.kind = K_STD_OTHER; out.what = std::string(typeid(e).name()) + ": " + e.what(); }
    catch(...) { out.kind = K_UNKNOWN; out.what = "non-std exception"; }
    return out;
  }


  // ---------------------------------------------------------------------------------------------- sequences of files
  /// runs f and classifies the way it terminated
  template<typename F_>
  inline Kind classify(F_&& f, std::string& what)
  {
    try { f(); return K_OK; }
    catch(const Xml::SyntaxError& e) { what = e.what(); return K_SYNTAX; }
    catch(const Xml::GrammarError& e) { what = e.what(); return K_GRAMMAR; }
    catch(const Xml::ContentError& e) { what = e.what(); return K_CONTENT; }
    catch(const MeshNodeLinkerError& e) { what = e.what(); return K_LINKER; }
    catch(const FEAT::FileError& e) { what = e.what(); return K_FILE; }
    catch(const FEAT::ParseError& e) { what = e.what(); return K_FILE; }
    catch(const FEAT::SyntaxError& e) { what = e.what(); return K_FILE; }
    catch(const FEAT::Exception& e) { what = std::string(typeid(e).name()) + ": " + e.what(); return K_FEAT_OTHER; }
    catch(const std::bad_alloc& e) { what = e.what(); return K_RESOURCE; }
    catch(const std::length_error& e) { what = e.what(); return K_RESOURCE; }
    catch(const std::exception& e) { what = std::string(typeid(e).name()) + ": " + e.what(); return K_STD_OTHER; }
    catch(...) { what = "non-std exception"; return K_UNKNOWN; }
  }

  struct SeqResult
  {
    std::vector<Kind> kinds;            // one per step
    std::vector<std::string> whats;
    std::vector<std::string> canons;    // structural dump of the (shared) node/atlas/partition set after each step
    std::string written;                // MeshFileWriter output after the last step
  };

  /// one_reader: all texts are streams of ONE MeshFileReader (one step); otherwise one reader per text, all parsing
  /// into the same node / atlas / partition set (one step per text)
  template<typename Mesh_>
  void parse_sequence_typed(const std::vector<std::string>& texts, bool one_reader, bool with_partitions, SeqResult& out)
  {
    MeshAtlas<Mesh_> atlas;
    RootMeshNode<Mesh_> node(nullptr, &atlas);
    PartitionSet ps;
    auto after = [&]()
    {
      out.canons.push_back(canon(node, atlas, ps));
    };
    if(one_reader)
    {
      std::string what;
      std::vector<std::unique_ptr<std::istringstream>> streams;
      Kind k = classify([&]{
        MeshFileReader reader;
        for(auto& t : texts) { streams.emplace_back(new std::istringstream(t)); reader.add_stream(*streams.back()); }
        reader.parse(node, atlas, with_partitions ? &ps : nullptr);
      }, what);
      out.kinds.push_back(k); out.whats.push_back(what); after();
    }
    else
    {
      for(auto& t : texts)
      {
        std::string what;
        Kind k = classify([&]{
          std::istringstream iss(t);
          MeshFileReader reader(iss);
          reader.parse(node, atlas, with_partitions ? &ps : nullptr);
        }, what);
        out.kinds.push_back(k); out.whats.push_back(what); after();
      }
    }
    std::ostringstream os;
    { MeshFileWriter w(os); w.write(&node, &atlas, &ps); }
    out.written = os.str();
  }

  inline bool parse_sequence(const std::string& type, const std::vector<std::string>& texts, bool one_reader, bool with_partitions, SeqResult& out)
  {
    if(type == "conformal:hypercube:1:1") parse_sequence_typed<MeshH1>(texts, one_reader, with_partitions, out);
    else if(type == "conformal:hypercube:2:2") parse_sequence_typed<MeshH2>(texts, one_reader, with_partitions, out);
    else if(type == "conformal:hypercube:3:3") parse_sequence_typed<MeshH3>(texts, one_reader, with_partitions, out);
    else if(type == "conformal:simplex:2:2") parse_sequence_typed<MeshS2>(texts, one_reader, with_partitions, out);
    else if(type == "conformal:simplex:3:3") parse_sequence_typed<MeshS3>(texts, one_reader, with_partitions, out);
    else return false;
    return true;
  }

  /// canon with its partition lines sorted (partitions are kept in order of arrival; everything else is keyed by name)
  inline std::string sorted_lines(const std::string& s)
  {
    std::vector<std::string> part; std::string rest; std::istringstream is(s); std::string l;
    while(std::getline(is, l)) { if(l.compare(0, 11, "partition '") == 0) part.push_back(l); else { rest += l; rest += '\n'; } }
    std::sort(part.begin(), part.end());
    for(auto& x : part) { rest += x; rest += '\n'; }
    return rest;
  }


  // ---------------------------------------------------------------------------------------------- adaption by the charts
  struct AdaptResult { Kind kind = K_UNKNOWN; std::string what, canon_before, canon_after, written_after; int mesh_type = -1, shape_type = -1, shape_dim = -1, world_dim = -1;
    double max_dist_on_chart = 0.0; long linked_vertices = 0, bystanders_moved = 0; };

  /// parse, then RootMeshNode::adapt() (every mesh part that is linked to a chart is projected onto it), dump before / after
  template<typename Mesh_>
  void parse_adapt_typed(const std::string& text, AdaptResult& out)
  {
    std::istringstream iss(text);
    MeshFileReader reader(iss);
    reader.read_root_markup();
    out.mesh_type = int(reader.get_mesh_type()); out.shape_type = int(reader.get_shape_type());
    out.shape_dim = reader.get_shape_dim(); out.world_dim = reader.get_world_dim();
    MeshAtlas<Mesh_> atlas;
    RootMeshNode<Mesh_> node(nullptr, &atlas);
    PartitionSet ps;
    reader.parse(node, atlas, &ps);
    out.canon_before = canon(node, atlas, ps);
    std::vector<typename Mesh_::VertexSetType::VertexType> before;
    if(node.get_mesh()) for(Index i = 0; i < node.get_mesh()->get_num_entities(0); ++i) before.push_back(node.get_mesh()->get_vertex_set()[i]);
    node.adapt();
    out.canon_after = canon(node, atlas, ps);
    // independent oracle of the adaption: afterwards the vertices of every chart-linked mesh part lie on their chart and no other vertex moved
    if(node.get_mesh())
    {
      std::vector<char> linked(before.size(), 0);
      for(auto& n : node.get_mesh_part_names())
      {
        const auto* ch = node.find_mesh_part_chart(n); const auto* mp = node.find_mesh_part(n);
        if(ch == nullptr || mp == nullptr || dynamic_cast<const Atlas::SurfaceMesh<Mesh_>*>(ch) != nullptr) continue;
        const auto& ts = mp->template get_target_set<0>();
        for(Index i = 0; i < ts.get_num_entities(); ++i)
        {
          linked[ts[i]] = 1; ++out.linked_vertices;
          double d = std::fabs(double(ch->dist(node.get_mesh()->get_vertex_set()[ts[i]])));
          if(d > out.max_dist_on_chart) out.max_dist_on_chart = d;
        }
      }
      for(size_t i = 0; i < before.size(); ++i)
        if(!linked[i]) for(int j = 0; j < Mesh_::world_dim; ++j) if(!(before[i][j] == node.get_mesh()->get_vertex_set()[Index(i)][j])) { ++out.bystanders_moved; break; }
    }
    std::ostringstream os; { MeshFileWriter w(os); w.write(&node, &atlas, &ps); }
    out.written_after = os.str();
  }

  inline AdaptResult parse_adapt(const std::string& text, const std::string& type)
  {
    AdaptResult out;
    out.kind = classify([&]{
      if(type == "conformal:hypercube:1:1") parse_adapt_typed<MeshH1>(text, out);
      else if(type == "conformal:hypercube:2:2") parse_adapt_typed<MeshH2>(text, out);
      else if(type == "conformal:hypercube:3:3") parse_adapt_typed<MeshH3>(text, out);
      else if(type == "conformal:simplex:2:2") parse_adapt_typed<MeshS2>(text, out);
      else parse_adapt_typed<MeshS3>(text, out);
    }, out.what);
    return out;
  }

  // ---------------------------------------------------------------------------------------------- property map
  inline std::string pm_canon(const PropertyMap& pm, int depth = 0)
  {
    std::ostringstream os;
    for(auto it = pm.begin_entry(); it != pm.end_entry(); ++it) os << std::string(size_t(depth), ' ') << "E<" << it->first << ">=<" << it->second << ">\n";
    for(auto it = pm.begin_section(); it != pm.end_section(); ++it) { os << std::string(size_t(depth), ' ') << "S<" << it->first << ">\n" << pm_canon(*it->second, depth + 1); }
    return os.str();
  }

  struct ParsedIni { Kind kind = K_UNKNOWN; std::string what, written, canon; };

  inline ParsedIni parse_ini(const std::string& text)
  {
    ParsedIni out;
    try
    {
      std::istringstream iss(text);
      PropertyMap pm;
      pm.read(iss, true);
      std::ostringstream os;
      pm.write(os);
      out.written = os.str();
      out.canon = pm_canon(pm);
      out.kind = K_OK;
    }
    catch(const FEAT::SyntaxError& e) { out.kind = K_FILE; out.what = e.what(); }
    catch(const FEAT::FileError& e) { out.kind = K_FILE; out.what = e.what(); }
    catch(const FEAT::Exception& e) { out.kind = K_FEAT_OTHER; out.what = std::string(typeid(e).name()) + ": " + e.what(); }
    catch(const std::bad_alloc& e) { out.kind = K_RESOURCE; out.what = e.what(); }
    catch(const std::exception& e) { out.kind = K_STD_OTHER; out.what = std::string(typeid(e).name()) + ": " + e.what(); }
    catch(...) { out.kind = K_UNKNOWN; out.what = "non-std exception"; }
    return out;
  }

  inline std::string trim_ws(const std::string& s)
  {
    const char* ws = " \a\b\f\n\r\t\v";
    size_t a = s.find_first_not_of(ws);
    if(a == std::string::npos) return std::string();
    size_t b = s.find_last_not_of(ws);
    return s.substr(a, b - a + 1);
  }

  inline bool read_file(const std::string& path, std::string& out)
  {
    std::ifstream in(path, std::ios::binary);
    if(!in) return false;
    std::ostringstream ss; ss << in.rdbuf();
    out = ss.str();
    return true;
  }

  inline std::string printable(const std::string& s, size_t maxlen = 400)
  {
    std::string o;
    for(unsigned char ch : s)
    {
      if(o.size() >= maxlen) { o += "..."; break; }
      if(ch == '\n') o += "\\n"; else if(ch < 0x20 || ch >= 0x7f) { char b[8]; snprintf(b, sizeof b, "\\x%02x", ch); o += b; } else o += char(ch);
    }
    return o;
  }
} // namespace c11
