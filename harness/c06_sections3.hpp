// combinators: FilterChain, FilterSequence, TupleFilter, PowerFilter, Global::Filter (included once, inside c06_filter.cpp)
// Oracle: the sub-filter reference models applied in sequence (chain/sequence) resp. component-wise (tuple/power).
#pragma once
namespace
{
  template<typename DT>
  DenseVector<DT, Index> xvec(int n, int salt)
  {
    DenseVector<DT, Index> v{Index(n)};
    for(int i = 0; i < n; ++i) v.elements()[i] = DT(xval(Index(i), salt));
    return v;
  }

  /// expected CSR values after a sequence of unit filter_mat applications
  template<typename Mat>
  void expect_unit_rows(const MatSnap<Mat>& s0, const std::vector<const RUnit*>& refs, std::vector<typename Mat::DataType>& exp)
  {
    typedef typename Mat::DataType DT;
    exp = s0.val;
    for(const RUnit* r : refs) for(auto& e : r->m) for(Index k = s0.rp[e.first]; k < s0.rp[e.first + 1]; ++k) exp[k] = (s0.ci[k] == e.first) ? DT(1) : DT(0);
  }

  // ---------------------------------------------------------------------------------------- chain of two/three unit filters
  template<typename DT>
  void chain_unit_unit(verif::Ctx& c, const std::string& kname)
  {
    typedef UnitFilter<DT, Index> UF;
    const int N = c.thorough ? 5 : 4;
    for(int n = 0; n <= N; ++n) for(unsigned S1 = 0; S1 < (1u << n); ++S1) for(unsigned S2 = 0; S2 < (1u << n); ++S2) for(int op = 0; op < 5; ++op)
    {
      if(op == 4 && n == 0) continue;
      if(!c.want()) continue;
      c.desc([&]{ return kname + " n=" + std::to_string(n) + " S1=" + set_name(S1, n) + " S2=" + set_name(S2, n) + " op=" + (op < 4 ? fop_name[op] : "filter_mat"); });
      RUnit r1, r2;
      UF f1 = make_unit<DT>(n, S1, ORD_ASC, r1, 0), f2 = make_unit<DT>(n, S2, ORD_DESC, r2, 1);
      FilterChain<UF, UF> ch(std::move(f1), std::move(f2));
      // derived object (deep clone, move-assigned back) and re-invocation (used on another vector before), rotating
      if((S1 + 2 * S2 + unsigned(op)) % 3 == 0) { FilterChain<UF, UF> d = ch.clone(CloneMode::Deep); ch = std::move(d); c.count("cases_on_derived_filters"); }
#if C06_HAVE_COMBINATOR_FIXES
      std::unique_ptr<FilterChain<UF, UF>> chsrc;
      if((S1 + 2 * S2 + unsigned(op)) % 3 == 1)
      {
        chsrc.reset(new FilterChain<UF, UF>(std::move(ch)));
        RUnit rx, ry;
        ch = FilterChain<UF, UF>(make_unit<DT>(n, ~S1 & ((1u << n) - 1u), ORD_ASC, rx, 2), make_unit<DT>(n, 0, ORD_ASC, ry, 2));
        ch.clone(*chsrc, CloneMode::Deep);
        c.count("cases_on_derived_filters");
      }
#endif
      if((S1 + S2 + unsigned(op)) % 2 == 1 && op < 4) { auto w = xvec<DT>(n, 3); apply_op(ch, w, (op + 1) % 4); c.count("cases_on_previously_used_filters"); }
      if(op < 4)
      {
        auto v = xvec<DT>(n, 8);
        check_vec(c, kname, ch, v, op, [&](Ref& r) { r1.apply(r, op); r2.apply(r, op); }, no_cons);
      }
      else
      {
        typedef SparseMatrixCSR<DT, Index> Mat;
        const unsigned full = (1u << (n * n)) - 1u;
        for(unsigned pat : {full, full & ~1u, 0x1A5u & full})
        {
          Mat a = make_csr<DT>(n, n, pat);
          MatSnap<Mat> s0(a); std::vector<DT> exp;
          expect_unit_rows(s0, {&r1, &r2}, exp);
          ch.filter_mat(a);
          MatSnap<Mat> s1(a);
          c.check(s1.val == exp && s1.rp == s0.rp && s1.ci == s0.ci, kname + ".filter_mat: wrong matrix entries", [&]{ return "values " + fmtv(s1.val) + " expected " + fmtv(exp); });
        }
      }
      if((S1 | S2) != 0) c.nontrivial(verif::Hash().str(kname).pod(n).pod(S1).pod(S2).pod(op).get());
      c.outcome(std::string("chain unit,unit ") + ((S1 & S2) ? "overlapping" : "disjoint"));
    }
    // three links, assembled through at<i>()
    for(int n = 1; n <= 2; ++n) for(unsigned S = 0; S < (1u << (3 * n)); ++S) for(int op = 0; op < 4; ++op)
    {
      if(!c.want()) continue;
      const unsigned S1 = S & ((1u << n) - 1u), S2 = (S >> n) & ((1u << n) - 1u), S3 = (S >> (2 * n)) & ((1u << n) - 1u);
      c.desc([&]{ return kname + "(3 links) n=" + std::to_string(n) + " S1=" + set_name(S1, n) + " S2=" + set_name(S2, n) + " S3=" + set_name(S3, n) + " op=" + fop_name[op]; });
      RUnit r1, r2, r3;
#if C06_HAVE_COMBINATOR_FIXES
      FilterChain<UF, UF, UF> ch(make_unit<DT>(n, S1, ORD_ASC, r1, 0), make_unit<DT>(n, S2, ORD_ASC, r2, 1), make_unit<DT>(n, S3, ORD_ASC, r3, 2));
      if((S + unsigned(op)) % 2) { FilterChain<UF, UF, UF> d; d.clone(ch, CloneMode::Deep); ch = std::move(d); c.count("cases_on_derived_filters"); }
#else
      FilterChain<UF, UF, UF> ch;
      ch.template at<0>() = make_unit<DT>(n, S1, ORD_ASC, r1, 0);
      ch.template at<1>() = make_unit<DT>(n, S2, ORD_ASC, r2, 1);
      ch.template at<2>() = make_unit<DT>(n, S3, ORD_ASC, r3, 2);
#endif
      auto v = xvec<DT>(n, 8);
      check_vec(c, kname + "(3 links)", ch, v, op, [&](Ref& r) { r1.apply(r, op); r2.apply(r, op); r3.apply(r, op); }, no_cons);
      if(S != 0) c.nontrivial(verif::Hash().str(kname).str("3").pod(n).pod(S).pod(op).get());
    }
  }

  // ---------------------------------------------------------------------------------------- chain unit + mean (both orders)
  template<typename DT>
  void chain_unit_mean(verif::Ctx& c, const std::string& kname)
  {
    typedef UnitFilter<DT, Index> UF;
    typedef MeanFilter<DT, Index> MF;
    const int N = c.thorough ? 5 : 4;
    for(int n = 1; n <= N; ++n) for(unsigned S = 0; S < (1u << n); ++S) for(int wv = 0; wv < 2; ++wv) for(int ord = 0; ord < 2; ++ord) for(int op = 0; op < 4; ++op)
    {
      if(!c.want()) continue;
      c.desc([&]{ return kname + (ord ? "<Mean,Unit>" : "<Unit,Mean>") + " n=" + std::to_string(n) + " S=" + set_name(S, n) + " weights#" + std::to_string(wv) + " op=" + fop_name[op]; });
      RUnit ru; std::vector<RMean> rm(1);
      UF uf = make_unit<DT>(n, S, ORD_ASC, ru);
      mean_weights(wv, size_t(n), rm[0].prim, rm[0].dual);
      rm[0].vol = 0; for(int i = 0; i < n; ++i) rm[0].vol += rm[0].prim[size_t(i)] * rm[0].dual[size_t(i)];
      rm[0].exact = is_pow2(rm[0].vol);
      DenseVector<DT, Index> p{Index(n)}, d{Index(n)};
      for(int i = 0; i < n; ++i) { p.elements()[i] = DT(rm[0].prim[size_t(i)]); d.elements()[i] = DT(rm[0].dual[size_t(i)]); }
      MF mf(std::move(p), std::move(d));
      auto v = xvec<DT>(n, 9);
      const std::vector<DT> x = flat_of(v);
      Ref r = Ref::from(x);
      const std::string k = kname + (ord ? "<Mean,Unit>." : "<Unit,Mean>.") + fop_name[op];
      // the links do not commute: only one application is compared with the sequential reference; the constraint of
      // the LAST link holds afterwards
      if(ord == 0)
      {
        FilterChain<UF, MF> ch(std::move(uf), std::move(mf));
        ru.apply(r, op); rm[0].template apply<DT>(r, op);
        apply_op(ch, v, op);
        const std::vector<DT> y = flat_of(v);
        compare(c, k, x, y, r);
        mean_cons<DT>(c, rm, op)(y, k, r);
      }
      else
      {
        FilterChain<MF, UF> ch(std::move(mf), std::move(uf));
        rm[0].template apply<DT>(r, op); ru.apply(r, op);
        apply_op(ch, v, op);
        const std::vector<DT> y = flat_of(v);
        compare(c, k, x, y, r);
        for(auto& e : ru.m) c.check(LD(y[e.first]) == ((op == F_RHS || op == F_SOL) ? e.second : LD(0)), k + ": constrained entry not exact", "the last link of the chain is a unit filter");
      }
      c.count("filter_applications");
      c.nontrivial(verif::Hash().str(kname).pod(n).pod(S).pod(wv).pod(ord).pod(op).get());
      c.outcome(ord ? "chain mean,unit" : "chain unit,mean");
    }
  }

  // ---------------------------------------------------------------------------------------- chain blocked unit + slip
  template<typename DT>
  void chain_unitb_slip(verif::Ctx& c, const std::string& kname)
  {
    typedef UnitFilterBlocked<DT, Index, 2> UB;
    typedef SlipFilter<DT, Index, 2> SF;
    const int N = c.thorough ? 5 : 4;
    for(int n = 1; n <= N; ++n) for(unsigned S1 = 0; S1 < (1u << n); ++S1) for(unsigned S2 = 0; S2 < (1u << n); ++S2) for(int nv = 0; nv < 6; nv += 3) for(int op = 0; op < 4; ++op)
    {
      if(!c.want()) continue;
      c.desc([&]{ return kname + " blocks=" + std::to_string(n) + " unit=" + set_name(S1, n) + " slip=" + set_name(S2, n) + " normals#" + std::to_string(nv) + " op=" + fop_name[op]; });
      RUnitB ru; RSlip rs;
      UB ub = make_unitb<DT, 2>(n, S1, ORD_ASC, false, 0, ru);
      SF sf = make_slip<DT, 2>(n, S2, ORD_DESC, nv, rs);
      FilterChain<UB, SF> ch(std::move(ub), std::move(sf));
      DenseVectorBlocked<DT, Index, 2> v{Index(n)};
      for(int i = 0; i < 2 * n; ++i) v.template elements<Perspective::pod>()[i] = DT(xval(Index(i), 10));
      const std::string k = kname;
      if((S1 & S2) == 0)
      {
        // disjoint index sets: both constraints hold and the chain is idempotent
        check_vec(c, k, ch, v, op, [&](Ref& r) { ru.apply(r, op); rs.template apply<DT>(r, op); }, slip_cons<DT>(c, rs));
      }
      else
      {
        const std::vector<DT> x = flat_of(v);
        Ref r = Ref::from(x);
        ru.apply(r, op); rs.template apply<DT>(r, op);
        apply_op(ch, v, op);
        const std::vector<DT> y = flat_of(v);
        compare(c, k + "." + fop_name[op], x, y, r);
        slip_cons<DT>(c, rs)(y, k + "." + fop_name[op], r);
        c.count("filter_applications");
      }
      if((S1 | S2) != 0) c.nontrivial(verif::Hash().str(kname).pod(n).pod(S1).pod(S2).pod(nv).pod(op).get());
      c.outcome(std::string("chain unit-blocked,slip ") + ((S1 & S2) ? "overlapping" : "disjoint"));
    }
  }

  // ---------------------------------------------------------------------------------------- sequence of unit filters
  template<typename DT>
  void sequence_unit(verif::Ctx& c, const std::string& kname)
  {
    typedef UnitFilter<DT, Index> UF;
    const int n = 2;
    const int K = c.thorough ? 5 : 4;
    for(int k = 0; k <= K; ++k) for(unsigned code = 0; code < (1u << (n * k)); ++code) for(int how = 0; how < 2; ++how) for(int op = 0; op < 5; ++op)
    {
      if(!c.want()) continue;
      c.desc([&]{ std::string d = kname + " n=2 links=" + std::to_string(k) + " sets="; for(int j = 0; j < k; ++j) d += set_name((code >> (n * j)) & 3u, n); return d + (how ? " (ids ctor)" : " (find_or_add)") + " op=" + (op < 4 ? fop_name[op] : "filter_mat"); });
      std::vector<RUnit> refs((size_t)k);
      FilterSequence<UF> seq;
      if(how == 1)
      {
        std::deque<String> ids; for(int j = 0; j < k; ++j) ids.push_back("f" + stringify(j));
        seq = FilterSequence<UF>(ids);
        for(int j = 0; j < k; ++j) seq.at(size_t(j)).second = make_unit<DT>(n, (code >> (n * j)) & 3u, ORD_ASC, refs[size_t(j)], j);
      }
      else
      {
        for(int j = 0; j < k; ++j) seq.find_or_add("f" + stringify(j)) = make_unit<DT>(n, (code >> (n * j)) & 3u, ORD_ASC, refs[size_t(j)], j);
        // an existing name returns the existing link and does not grow the sequence
        for(int j = 0; j < k; ++j) c.check(&seq.find_or_add("f" + stringify(j)) == &seq.at(size_t(j)).second, kname + ": find_or_add", "existing name did not return the existing sub-filter");
      }
      c.check(seq.size() == size_t(k), kname + ": size", "wrong number of links");
      if((code + unsigned(op)) % 3 == 0) { FilterSequence<UF> d = seq.clone(CloneMode::Deep); seq = std::move(d); c.count("cases_on_derived_filters"); }
#if C06_HAVE_COMBINATOR_FIXES
      if((code + unsigned(op)) % 3 == 1) { FilterSequence<UF> d; RUnit rst; d.find_or_add("stale") = make_unit<DT>(n, 3u, ORD_ASC, rst, 3); d.clone(seq, CloneMode::Deep); seq = std::move(d); c.count("cases_on_derived_filters"); }
#endif
      if((code + unsigned(op)) % 2 == 1 && op < 4) { auto w = xvec<DT>(n, 3); apply_op(seq, w, (op + 1) % 4); c.count("cases_on_previously_used_filters"); }
      if(op < 4)
      {
        auto v = xvec<DT>(n, 11);
        check_vec(c, kname, seq, v, op, [&](Ref& r) { for(auto& u : refs) u.apply(r, op); }, no_cons);
      }
      else
      {
        typedef SparseMatrixCSR<DT, Index> Mat;
        Mat a = make_csr<DT>(n, n, 15u);
        MatSnap<Mat> s0(a); std::vector<DT> exp;
        std::vector<const RUnit*> rp; for(auto& u : refs) rp.push_back(&u);
        expect_unit_rows(s0, rp, exp);
        seq.filter_mat(a);
        MatSnap<Mat> s1(a);
        c.check(s1.val == exp, kname + ".filter_mat: wrong matrix entries", [&]{ return "values " + fmtv(s1.val) + " expected " + fmtv(exp); });
      }
      if(code != 0) c.nontrivial(verif::Hash().str(kname).pod(k).pod(code).pod(how).pod(op).get());
      c.outcome("sequence unit");
    }
  }

  // ---------------------------------------------------------------------------------------- tuple / power / global wrapper
  template<typename DT>
  void tuple_power_global(verif::Ctx& c, const std::string& kname)
  {
    typedef UnitFilter<DT, Index> UF;
    typedef UnitFilterBlocked<DT, Index, 2> UB;
    typedef MeanFilter<DT, Index> MF;
    typedef DenseVector<DT, Index> DV;
    typedef DenseVectorBlocked<DT, Index, 2> DVB;
    const int N = c.thorough ? 4 : 3;
    // TupleFilter<Unit, UnitBlocked<2>>
    for(int n1 = 0; n1 <= N; ++n1) for(int n2 = 0; n2 <= N; ++n2) for(unsigned S1 = 0; S1 < (1u << n1); ++S1) for(unsigned S2 = 0; S2 < (1u << n2); ++S2) for(int op = 0; op < 4; ++op)
    {
      if(!c.want()) continue;
      c.desc([&]{ return kname + " TupleFilter<Unit,UnitBlocked2> sizes=(" + std::to_string(n1) + "," + std::to_string(n2) + ") S1=" + set_name(S1, n1) + " S2=" + set_name(S2, n2) + " op=" + fop_name[op]; });
      RUnit r1; RUnitB r2;
      TupleFilter<UF, UB> tf(make_unit<DT>(n1, S1, ORD_DESC, r1), make_unitb<DT, 2>(n2, S2, ORD_ASC, false, 0, r2, 1));
      if((S1 + 2 * S2 + unsigned(op)) % 3 == 0) { TupleFilter<UF, UB> d = tf.clone(CloneMode::Deep); tf = std::move(d); c.count("cases_on_derived_filters"); }
      std::unique_ptr<TupleFilter<UF, UB>> tsrc;
      if((S1 + 2 * S2 + unsigned(op)) % 3 == 1)
      {
        // clone(other, mode) into an existing tuple filter; the source stays alive
        tsrc.reset(new TupleFilter<UF, UB>(std::move(tf)));
        RUnit rx; RUnitB ry;
        tf = TupleFilter<UF, UB>(make_unit<DT>(n1, 0, ORD_ASC, rx), make_unitb<DT, 2>(n2, 0, ORD_ASC, false, 0, ry));
        tf.clone(*tsrc, CloneMode::Deep);
        c.count("cases_on_derived_filters");
      }
      TupleVector<DV, DVB> v{DV(Index(n1)), DVB(Index(n2))};
      { std::vector<DT> x(size_t(n1 + 2 * n2)); for(size_t i = 0; i < x.size(); ++i) x[i] = DT(xval(Index(i), 12)); set_flat(v, x); }
      std::shared_ptr<void> tkeep;
      if((S1 + 2 * S2 + unsigned(op)) % 3 == 2 && (n1 + n2) % 2 == 1)
      {
        // convert() from the tuple filter of the other data type
        typedef typename std::conditional<std::is_same<DT, double>::value, float, double>::type DT2;
        typedef TupleFilter<UnitFilter<DT2, Index>, UnitFilterBlocked<DT2, Index, 2>> TF2;
        RUnit rx; RUnitB ry;
        auto src = std::make_shared<TF2>(make_unit<DT2>(n1, S1, ORD_DESC, rx), make_unitb<DT2, 2>(n2, S2, ORD_ASC, false, 0, ry, 1));
        tkeep = src;
        // the target holds OTHER constraints before (complementary sets, other values)
        { RUnit rq; RUnitB rw; tf = TupleFilter<UF, UB>(make_unit<DT>(n1, ~S1 & ((1u << n1) - 1u), ORD_ASC, rq, 2), make_unitb<DT, 2>(n2, ~S2 & ((1u << n2) - 1u), ORD_ASC, false, 0, rw, 3)); }
        tf.convert(*src);
        c.count("cases_on_derived_filters");
      }
      check_vec(c, kname + " TupleFilter<Unit,UnitBlocked2>", tf, v, op, [&](Ref& r) {
        Ref a{size_t(n1)}, b{size_t(2 * n2)};
        for(int i = 0; i < n1; ++i) a.v[size_t(i)] = r.v[size_t(i)];
        for(int i = 0; i < 2 * n2; ++i) b.v[size_t(i)] = r.v[size_t(n1 + i)];
        r1.apply(a, op); r2.apply(b, op);
        for(int i = 0; i < n1; ++i) { r.v[size_t(i)] = a.v[size_t(i)]; r.untouched[size_t(i)] = a.untouched[size_t(i)]; }
        for(int i = 0; i < 2 * n2; ++i) { r.v[size_t(n1 + i)] = b.v[size_t(i)]; r.untouched[size_t(n1 + i)] = b.untouched[size_t(i)]; }
      }, no_cons);
      if((S1 | S2) != 0) c.nontrivial(verif::Hash().str(kname).str("tuple").pod(n1).pod(n2).pod(S1).pod(S2).pod(op).get());
      c.outcome("tuple unit,unit-blocked");
    }
    // TupleFilter<Mean, Unit>: the mean acts on the first component only
    for(int n1 = 1; n1 <= N + 1; ++n1) for(int n2 = 0; n2 <= N; ++n2) for(unsigned S2 = 0; S2 < (1u << n2); ++S2) for(int wv = 0; wv < 2; ++wv) for(int op = 0; op < 4; ++op)
    {
      if(!c.want()) continue;
      c.desc([&]{ return kname + " TupleFilter<Mean,Unit> sizes=(" + std::to_string(n1) + "," + std::to_string(n2) + ") S2=" + set_name(S2, n2) + " weights#" + std::to_string(wv) + " op=" + fop_name[op]; });
      RUnit r2; std::vector<RMean> rm(1);
      mean_weights(wv, size_t(n1), rm[0].prim, rm[0].dual);
      rm[0].vol = 0; for(int i = 0; i < n1; ++i) rm[0].vol += rm[0].prim[size_t(i)] * rm[0].dual[size_t(i)];
      rm[0].exact = is_pow2(rm[0].vol);
      DV p{Index(n1)}, d{Index(n1)};
      for(int i = 0; i < n1; ++i) { p.elements()[i] = DT(rm[0].prim[size_t(i)]); d.elements()[i] = DT(rm[0].dual[size_t(i)]); }
      TupleFilter<MF, UF> tf(MF(std::move(p), std::move(d)), make_unit<DT>(n2, S2, ORD_ASC, r2));
      TupleVector<DV, DV> v{DV(Index(n1)), DV(Index(n2))};
      { std::vector<DT> x(size_t(n1 + n2)); for(size_t i = 0; i < x.size(); ++i) x[i] = DT(xval(Index(i), 13)); set_flat(v, x); }
      check_vec(c, kname + " TupleFilter<Mean,Unit>", tf, v, op, [&](Ref& r) {
        rm[0].template apply<DT>(r, op);   // stride 1, first n1 entries
        Ref b{size_t(n2)};
        for(int i = 0; i < n2; ++i) b.v[size_t(i)] = r.v[size_t(n1 + i)];
        r2.apply(b, op);
        for(int i = 0; i < n2; ++i) { r.v[size_t(n1 + i)] = b.v[size_t(i)]; r.untouched[size_t(n1 + i)] = b.untouched[size_t(i)]; }
      }, mean_cons<DT>(c, rm, op));
      c.nontrivial(verif::Hash().str(kname).str("tuple-mean").pod(n1).pod(n2).pod(S2).pod(wv).pod(op).get());
      c.outcome("tuple mean,unit");
    }
    // PowerFilter<Unit,2|3>
    for(int cnt = 2; cnt <= 3; ++cnt) for(int n = 0; n <= N; ++n) for(unsigned S = 0; S < (1u << (n * cnt)); ++S) for(int op = 0; op < 4; ++op)
    {
      if(!c.want()) continue;
      c.desc([&]{ std::string d = kname + " PowerFilter<Unit," + std::to_string(cnt) + "> sub=" + std::to_string(n) + " sets="; for(int j = 0; j < cnt; ++j) d += set_name((S >> (n * j)) & ((1u << n) - 1u), n); return d + " op=" + fop_name[op]; });
      std::vector<RUnit> refs((size_t)cnt);
      auto model = [&](Ref& r) {
        for(int j = 0; j < cnt; ++j)
        {
          Ref a{(size_t)n};
          for(int i = 0; i < n; ++i) a.v[size_t(i)] = r.v[size_t(j * n + i)];
          refs[size_t(j)].apply(a, op);
          for(int i = 0; i < n; ++i) { r.v[size_t(j * n + i)] = a.v[size_t(i)]; r.untouched[size_t(j * n + i)] = a.untouched[size_t(i)]; }
        }
      };
      std::vector<DT> x(size_t(n * cnt)); for(size_t i = 0; i < x.size(); ++i) x[i] = DT(xval(Index(i), 14));
      if(cnt == 2)
      {
        PowerFilter<UF, 2> pf;
        for(int j = 0; j < 2; ++j) pf.get(j) = make_unit<DT>(n, (S >> (n * j)) & ((1u << n) - 1u), ORD_ASC, refs[size_t(j)], j);
        if((S + unsigned(op)) % 3 == 0) { PowerFilter<UF, 2> d = pf.clone(CloneMode::Deep); pf = std::move(d); c.count("cases_on_derived_filters"); }
#if C06_HAVE_COMBINATOR_FIXES
        if((S + unsigned(op)) % 3 == 1) { PowerFilter<UF, 2> d; d.clone(pf, CloneMode::Deep); pf = std::move(d); c.count("cases_on_derived_filters"); }
#endif
        PowerVector<DV, 2> v{Index(n)}; set_flat(v, x);
        check_vec(c, kname + " PowerFilter<Unit,2>", pf, v, op, model, no_cons);
      }
      else
      {
        PowerFilter<UF, 3> pf;
        pf.template at<0>() = make_unit<DT>(n, S & ((1u << n) - 1u), ORD_ASC, refs[0], 0);
        pf.template at<1>() = make_unit<DT>(n, (S >> n) & ((1u << n) - 1u), ORD_DESC, refs[1], 1);
        pf.template at<2>() = make_unit<DT>(n, (S >> (2 * n)) & ((1u << n) - 1u), ORD_ASC, refs[2], 2);
        PowerVector<DV, 3> v{Index(n)}; set_flat(v, x);
        check_vec(c, kname + " PowerFilter<Unit,3>", pf, v, op, model, no_cons);
      }
      if(S != 0) c.nontrivial(verif::Hash().str(kname).str("power").pod(cnt).pod(n).pod(S).pod(op).get());
      c.outcome("power unit");
    }
    // Global::Filter wrapper (serial: no gate needed by the filter operations)
    typedef VectorMirror<DT, Index> Mir;
    for(int n = 0; n <= N + 1; ++n) for(unsigned S = 0; S < (1u << n); ++S) for(int op = 0; op < 4; ++op)
    {
      if(!c.want()) continue;
      c.desc([&]{ return kname + " Global::Filter<Unit> n=" + std::to_string(n) + " S=" + set_name(S, n) + " op=" + fop_name[op]; });
      RUnit ru;
      Global::Filter<UF, Mir> gf0(make_unit<DT>(n, S, ORD_ASC, ru));
      Global::Filter<UF, Mir> gf;
      std::shared_ptr<void> gkeep;
      switch((S + unsigned(op) + unsigned(n)) % 4)
      {
      case 1: gf = gf0.clone(LAFEM::CloneMode::Deep); c.count("cases_on_derived_filters"); break;
      case 2: { RUnit rz; gf = Global::Filter<UF, Mir>(make_unit<DT>(n, ~S & ((1u << n) - 1u), ORD_ASC, rz, 2)); gf.clone(gf0, LAFEM::CloneMode::Deep); c.count("cases_on_derived_filters"); break; }
      case 3:
      {
        typedef typename std::conditional<std::is_same<DT, double>::value, float, double>::type DT2;
        RUnit rz;
        auto src = std::make_shared<Global::Filter<UnitFilter<DT2, Index>, VectorMirror<DT2, Index>>>(make_unit<DT2>(n, S, ORD_DESC, rz));
        gkeep = src;
        gf.convert(*src);
        c.count("cases_on_derived_filters");
        break;
      }
      default: gf = Global::Filter<UF, Mir>(std::move(gf0)); break;
      }
      c.check(n == 0 || gf.bytes() >= gf.local().get_filter_vector().used_elements() * sizeof(DT), kname + " Global::Filter: bytes", "bytes() smaller than the stored values");
      Global::Vector<DV, Mir> gv(nullptr, Index(n));
      for(int i = 0; i < n; ++i) gv.local().elements()[i] = DT(xval(Index(i), 15));
      check_vec_fn(c, kname + " Global::Filter<Unit>", gv.local(), op, [&]{ apply_op(gf, gv, op); }, [&](Ref& r) { ru.apply(r, op); }, no_cons);
      if(S != 0) c.nontrivial(verif::Hash().str(kname).str("global").pod(n).pod(S).pod(op).get());
      c.outcome("global filter unit");
    }
  }

  void combinator_sections(verif::Ctx& c)
  {
    chain_unit_unit<double>(c, "FilterChain<Unit,Unit><double>");
    chain_unit_unit<float>(c, "FilterChain<Unit,Unit><float>");
    chain_unit_mean<double>(c, "FilterChain");
    chain_unitb_slip<double>(c, "FilterChain<UnitBlocked2,Slip2><double>");
    sequence_unit<double>(c, "FilterSequence<Unit><double>");
    tuple_power_global<double>(c, "double");
    tuple_power_global<float>(c, "float");
  }
}
