// C16 symbolic patterns and the numeric assemblers scattering into them on permuted meshes, tetra/hexa; see c16_pattern_impl.hpp.
#include <c16_pattern_impl.hpp>
int main(int argc, char** argv) { return c16p::pattern_main<true>(argc, argv, "c16_pattern3d"); }
