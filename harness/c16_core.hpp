// c16_core.hpp -- shared parts of the C16 harnesses: the mesh family, the harness-owned exact polynomial integrator
// (long double Gauss-Legendre / Duffy quadrature with own node computation, cross-checked against the closed-form
// monomial integrals of c15_poly.hpp), polynomial vector fields, and dense helpers for CSR/BCSR matrices.
#pragma once
#include <c15_core.hpp>

#include <kernel/geometry/common_factories.hpp>
#include <kernel/lafem/dense_vector_blocked.hpp>
#include <kernel/lafem/sparse_matrix_bcsr.hpp>
#include <kernel/lafem/sparse_matrix_csr.hpp>

#include <memory>

namespace c16
{
  using namespace c15;
  using FEAT::Index;

  // ------------------------------------------------------------------------------------------------------------------
  // harness quadrature (exact for polynomials up to the requested degree)
  // ------------------------------------------------------------------------------------------------------------------
  /// n-point Gauss-Legendre rule on [-1,1] in long double (Newton on the Legendre polynomial)
  inline void gauss_legendre_ld(int n, std::vector<LD>& x, std::vector<LD>& w)
  {
    x.assign((size_t)n, LD(0)); w.assign((size_t)n, LD(0));
    const LD pi = std::acos(LD(-1));
    for(int i = 0; i < n; ++i)
    {
      LD z = std::cos(pi * (LD(i) + LD(0.75)) / (LD(n) + LD(0.5)));
      LD pp = 1;
      for(int it = 0; it < 100; ++it)
      {
        LD p1 = 1, p2 = 0;
        for(int j = 1; j <= n; ++j) { LD p3 = p2; p2 = p1; p1 = ((LD(2 * j - 1)) * z * p2 - LD(j - 1) * p3) / LD(j); }
        pp = LD(n) * (z * p1 - p2) / (z * z - 1);
        LD dz = p1 / pp;
        z -= dz;
        if(std::fabs(dz) < LD(1e-19)) break;
      }
      {
        LD p1 = 1, p2 = 0;
        for(int j = 1; j <= n; ++j) { LD p3 = p2; p2 = p1; p1 = ((LD(2 * j - 1)) * z * p2 - LD(j - 1) * p3) / LD(j); }
        pp = LD(n) * (z * p1 - p2) / (z * z - 1);
      }
      x[(size_t)i] = z;
      w[(size_t)i] = LD(2) / ((1 - z * z) * pp * pp);
    }
  }

  template<int D>
  struct QuadRule
  {
    std::vector<std::array<LD, D>> pts;
    std::vector<LD> wts;
  };

  /// reference quadrature exact for total degree `deg` (simplex, Duffy) resp. per-variable degree `deg` (cube)
  template<typename Shape_>
  QuadRule<Shape_::dimension> ref_quadrature(int deg)
  {
    constexpr int D = Shape_::dimension;
    QuadRule<D> q;
    std::vector<LD> gx, gw;
    if constexpr(ShapeInfo<Shape_>::is_simplex)
    {
      int n = (deg + D) / 2 + 1;
      gauss_legendre_ld(n, gx, gw);
      int tot = 1; for(int j = 0; j < D; ++j) tot *= n;
      for(int idx = 0; idx < tot; ++idx)
      {
        int t = idx; LD tt[3] = {0, 0, 0}; LD w = 1;
        for(int j = 0; j < D; ++j) { tt[j] = (gx[(size_t)(t % n)] + 1) / 2; w *= gw[(size_t)(t % n)] / 2; t /= n; }
        // Duffy: x_0 = t_0, x_1 = t_1 (1-t_0), x_2 = t_2 (1-t_0)(1-t_1)
        std::array<LD, D> p; LD f = 1;
        for(int j = 0; j < D; ++j)
        {
          p[(size_t)j] = tt[j] * f;
          // Jacobian factor: prod_{j<D-1} (1-t_j)^(D-1-j)
          for(int k = 0; k < D - 1 - j; ++k) w *= (1 - tt[j]);
          f *= (1 - tt[j]);
        }
        q.pts.push_back(p); q.wts.push_back(w);
      }
    }
    else
    {
      int n = deg / 2 + 1;
      gauss_legendre_ld(n, gx, gw);
      int tot = 1; for(int j = 0; j < D; ++j) tot *= n;
      for(int idx = 0; idx < tot; ++idx)
      {
        int t = idx; std::array<LD, D> p; LD w = 1;
        for(int j = 0; j < D; ++j) { p[(size_t)j] = gx[(size_t)(t % n)]; w *= gw[(size_t)(t % n)]; t /= n; }
        q.pts.push_back(p); q.wts.push_back(w);
      }
    }
    return q;
  }

  // ------------------------------------------------------------------------------------------------------------------
  // mesh context: a FEAT mesh + the harness geometry of its cells + exact moments of the domain
  // ------------------------------------------------------------------------------------------------------------------
  template<typename Shape_>
  struct MeshCtx
  {
    static constexpr int D = Shape_::dimension;
    typedef ShapeInfo<Shape_> SI;
    typedef Geometry::ConformalMesh<Shape_, D, double> MeshType;
    typedef std::array<int, D> Exp;
    std::unique_ptr<MeshType> mesh;
    std::vector<CellGeom<Shape_>> geoms;
    std::string desc;
    bool affine = true;
    int moment_degree = -1;
    std::map<Exp, LD> moments, abs_moments; // int x^e and int |x^e|

    void init_geoms()
    {
      geoms.clear();
      const auto& vs = mesh->get_vertex_set();
      const auto& vc = mesh->template get_index_set<D, 0>();
      affine = true;
      for(Index k = 0; k < mesh->get_num_entities(D); ++k)
      {
        std::array<std::array<LD, D>, SI::NV> x;
        for(int i = 0; i < SI::NV; ++i) for(int j = 0; j < D; ++j) x[(size_t)i][(size_t)j] = LD(vs[vc(k, i)][j]);
        geoms.emplace_back(x);
        affine = affine && geoms.back().affine;
      }
      moment_degree = -1; moments.clear(); abs_moments.clear();
    }

    /// computes the moments int_Omega x^e dx for all |e| <= deg
    void ensure_moments(int deg)
    {
      if(deg <= moment_degree) return;
      moments.clear(); abs_moments.clear();
      auto exps = exps_total_degree<D>(deg);
      // quadrature degree: the integrand x^e(F(xi)) |det| has per-variable degree deg + (D-1) on multilinear cells
      auto q = ref_quadrature<Shape_>(SI::is_simplex ? deg : deg + D - 1);
      for(auto& e : exps) { moments[e] = LD(0); abs_moments[e] = LD(0); }
      std::vector<LD> pw((size_t)(D * (deg + 1)));
      for(auto& g : geoms)
        for(size_t iq = 0; iq < q.pts.size(); ++iq)
        {
          auto x = g.map(q.pts[iq]);
          LD wd = q.wts[iq] * std::fabs(g.det.eval(q.pts[iq]));
          for(int j = 0; j < D; ++j) { pw[(size_t)(j * (deg + 1))] = 1; for(int a = 1; a <= deg; ++a) pw[(size_t)(j * (deg + 1) + a)] = pw[(size_t)(j * (deg + 1) + a - 1)] * x[(size_t)j]; }
          for(auto& e : exps)
          {
            LD m = wd;
            for(int j = 0; j < D; ++j) m *= pw[(size_t)(j * (deg + 1) + e[(size_t)j])];
            moments[e] += m;
            abs_moments[e] += std::fabs(m);
          }
        }
      moment_degree = deg;
    }

    /// exact integral over the domain of a polynomial in real coordinates
    LD integrate(const Poly<D>& p)
    {
      ensure_moments(std::max(p.degree(), 2));
      LD s = 0;
      for(auto& t : p.c) s += t.second * moments[t.first];
      return s;
    }

    /// sum of |c_e| |M_e|-like scale for tolerances: integral of the polynomial with absolute coefficients of |x|^e
    LD integrate_abs(const Poly<D>& p)
    {
      ensure_moments(std::max(p.degree(), 2));
      LD s = 0;
      for(auto& t : p.c) s += std::fabs(t.second) * abs_moments[t.first];
      return s;
    }

    LD volume() { return integrate(Poly<D>(LD(1))); }
  };

  /// mesh specification (cheap to enumerate)
  struct MeshSpec
  {
    int kind = 0;      // 0: one cell, 1: two cells, 2: refined unit cube
    int gA = 0, gB = 0, geo = 0;
    Twist tw;
    int refine = 0;    // number of StandardRefinery steps applied to the tiny mesh / level of the unit cube
    std::string str() const
    {
      return "kind" + std::to_string(kind) + " gA=" + std::to_string(gA) + " gB=" + std::to_string(gB) + " geo=" + geo_name(geo) + " tw=" + tw.str() + " refine=" + std::to_string(refine);
    }
  };

  template<typename Shape_>
  std::vector<MeshSpec> mesh_family(bool thorough_tier)
  {
    typedef ShapeInfo<Shape_> SI;
    constexpr int D = SI::D;
    // the 2D family is cheap: the quick tier uses the full one as well
    const bool thorough = thorough_tier || (D == 2);
    const int nsym = SI::num_sym();
    std::vector<MeshSpec> r;
    std::vector<int> geos = SI::is_simplex ? std::vector<int>{0, 1, 2} : std::vector<int>{0, 1, 3, 4};
    auto add = [&](int kind, int gA, int gB, int geo, Twist tw, int refine)
    { MeshSpec s; s.kind = kind; s.gA = gA; s.gB = gB; s.geo = geo; s.tw = tw; s.refine = refine; r.push_back(s); };
    Twist none, rev; rev.edge_mode = 1; if(D == 3) { rev.face_mode = 1; rev.face_code = SI::is_simplex ? 4 : 6; }
    // one cell
    for(int geo : geos) { add(0, 0, 0, geo, none, 0); add(0, nsym - 1, 0, geo, rev, 0); }
    if(thorough) for(int geo : geos) for(int g = 1; g < nsym - 1; g += (D == 3 ? 5 : 1)) add(0, g, 0, geo, (g & 1) ? rev : none, 0);
    // two cells
    std::vector<std::pair<int, int>> prs = {{0, 0}, {1, nsym - 1}, {nsym / 2, 2}, {nsym - 2, nsym / 3}};
    if(thorough) for(int g = 3; g < nsym; g += (D == 3 ? 7 : 2)) prs.emplace_back(g, (5 * g + 1) % nsym);
    for(int geo : geos)
    {
      if(geo == 0 && !thorough) continue;
      for(auto& p : prs) { add(1, p.first, p.second, geo, none, 0); add(1, p.first, p.second, geo, rev, 0); }
    }
    // two cells refined once (orientation dependent refinement patterns)
    for(int geo : geos)
    {
      if(geo == 0 || (!thorough && geo != geos.back())) continue;
      add(1, 1, nsym - 1, geo, rev, 1);
      if(thorough) add(1, nsym / 2, 2, geo, none, 1);
    }
    // refined unit cubes
    for(int lvl = 1; lvl <= (thorough ? (D == 3 ? 2 : 3) : (D == 3 ? 1 : 2)); ++lvl)
      for(int geo : geos)
      {
        if(!thorough && geo == 4) continue;
        add(2, 0, 0, geo, none, lvl);
      }
    return r;
  }

  template<typename Shape_>
  MeshCtx<Shape_> make_mesh(const MeshSpec& s)
  {
    constexpr int D = Shape_::dimension;
    typedef typename MeshCtx<Shape_>::MeshType MeshType;
    MeshCtx<Shape_> mc;
    mc.desc = std::string(ShapeInfo<Shape_>::name()) + " " + s.str();
    if(s.kind == 2)
    {
      FEAT::Geometry::RefinedUnitCubeFactory<MeshType> fac((Index)s.refine);
      mc.mesh.reset(new MeshType(fac));
      auto& vs = mc.mesh->get_vertex_set();
      for(Index i = 0; i < mc.mesh->get_num_entities(0); ++i)
      {
        std::array<double, D> v;
        // stretch the unit cube to [0,2]^D so that the perturbation of geo 3/4 (<= 1/8) stays small relative to h
        for(int j = 0; j < D; ++j) v[(size_t)j] = 2.0 * vs[i][j];
        // perturbation scaled with the mesh width
        std::array<double, D> w = v;
        if(s.geo == 3 || s.geo == 4)
        {
          auto p = geo_map<D>(3, v, i);
          for(int j = 0; j < D; ++j) w[(size_t)j] = v[(size_t)j] + (p[(size_t)j] - v[(size_t)j]) / double(1 << (s.refine - 1));
          // keep the boundary of the cube in place in normal direction is not required for C16
        }
        if(s.geo == 1 || s.geo == 2 || s.geo == 4) w = geo_map<D>(s.geo == 4 ? 1 : s.geo, w, i);
        for(int j = 0; j < D; ++j) vs[i][j] = w[(size_t)j];
      }
    }
    else
    {
      MeshData<Shape_> md = (s.kind == 0) ? make_one_cell<Shape_>(s.gA, s.geo, s.tw) : make_two_cell<Shape_>(s.gA, s.gB, s.geo, s.tw);
      DataFactory<Shape_> fac(md);
      mc.mesh.reset(new MeshType(fac));
      for(int rf = 0; rf < s.refine; ++rf)
      {
        FEAT::Geometry::StandardRefinery<MeshType> ref(*mc.mesh);
        std::unique_ptr<MeshType> fine(new MeshType(ref));
        mc.mesh = std::move(fine);
      }
    }
    mc.init_geoms();
    return mc;
  }

  // ------------------------------------------------------------------------------------------------------------------
  // dense helpers
  // ------------------------------------------------------------------------------------------------------------------
  typedef FEAT::LAFEM::SparseMatrixCSR<double, Index> CSR;
  typedef FEAT::LAFEM::DenseVector<double, Index> Vec;

  /// y^T A x in long double plus the absolute-value scale sum |y_i||a_ij||x_j|
  inline LD bilinear(const CSR& A, const Vec& y, const Vec& x, LD* scale = nullptr)
  {
    const Index* rp = A.row_ptr(); const Index* ci = A.col_ind(); const double* va = A.val();
    LD s = 0, sc = 0;
    for(Index i = 0; i < A.rows(); ++i)
      for(Index k = rp[i]; k < rp[i + 1]; ++k)
      {
        LD t = LD(y(i)) * LD(va[k]) * LD(x(ci[k]));
        s += t; sc += std::fabs(t);
      }
    if(scale) *scale = sc;
    return s;
  }

  inline LD entry(const CSR& A, Index i, Index j, bool* present = nullptr)
  {
    const Index* rp = A.row_ptr(); const Index* ci = A.col_ind(); const double* va = A.val();
    for(Index k = rp[i]; k < rp[i + 1]; ++k) if(ci[k] == j) { if(present) *present = true; return LD(va[k]); }
    if(present) *present = false;
    return LD(0);
  }

  /// max |a-b| relative to max(|a|,|b|, row scale); requires identical layouts
  inline double max_rel_diff(const CSR& A, const CSR& B, bool* same_layout, bool* bitwise)
  {
    *same_layout = (A.rows() == B.rows() && A.columns() == B.columns() && A.used_elements() == B.used_elements());
    *bitwise = *same_layout;
    if(!*same_layout) return 1e300;
    double nrm = 0;
    for(Index k = 0; k < A.used_elements(); ++k) nrm = std::max(nrm, std::fabs(A.val()[k]));
    double d = 0;
    for(Index i = 0; i <= A.rows(); ++i) if(A.row_ptr()[i] != B.row_ptr()[i]) { *same_layout = false; *bitwise = false; return 1e300; }
    for(Index k = 0; k < A.used_elements(); ++k)
    {
      if(A.col_ind()[k] != B.col_ind()[k]) { *same_layout = false; *bitwise = false; return 1e300; }
      double a = A.val()[k], b = B.val()[k];
      if(a != b) *bitwise = false;
      d = std::max(d, std::fabs(a - b) / (nrm > 0 ? nrm : 1.0));
    }
    return d;
  }

  /// interpolates each polynomial of a list into a space
  template<typename Space_, int D>
  std::vector<Vec> interpolate_all(const Space_& space, const std::vector<Poly<D>>& fs)
  {
    std::vector<Vec> r;
    for(auto& p : fs)
    {
      PolyFunction<D> pf(p);
      Vec v;
      FEAT::Assembly::Interpolator::project(v, pf, space);
      r.push_back(std::move(v));
    }
    return r;
  }

  /// the harness coupling set of a test/trial space pair: (i,j) coupled iff they are local dofs of one cell
  template<typename TestSpace_, typename TrialSpace_>
  std::set<std::pair<Index, Index>> coupling_set(const TestSpace_& test, const TrialSpace_& trial)
  {
    std::set<std::pair<Index, Index>> s;
    typename TestSpace_::DofMappingType dm_t(test);
    typename TrialSpace_::DofMappingType dm_s(trial);
    const Index nc = test.get_mesh().get_num_entities(TestSpace_::shape_dim);
    for(Index k = 0; k < nc; ++k)
    {
      dm_t.prepare(k); dm_s.prepare(k);
      for(int i = 0; i < dm_t.get_num_local_dofs(); ++i)
        for(int j = 0; j < dm_s.get_num_local_dofs(); ++j)
          s.emplace(dm_t.get_index(i), dm_s.get_index(j));
      dm_s.finish(); dm_t.finish();
    }
    return s;
  }

  inline std::set<std::pair<Index, Index>> pattern_set(const CSR& A)
  {
    std::set<std::pair<Index, Index>> s;
    for(Index i = 0; i < A.rows(); ++i) for(Index k = A.row_ptr()[i]; k < A.row_ptr()[i + 1]; ++k) s.emplace(i, A.col_ind()[k]);
    return s;
  }
} // namespace c16
