// c13_crossrun -- C13, binding the MPI model to a real MPI implementation (DESIGN 2.2 (ii), optional):
// for a few configurations the SAME rank body (c13_ops.hpp) is executed (a) under engine/minimpi with all Waitany answer
// sequences and both send modes, giving the set of bitwise result digests, and (b) by `mpirun -n P c13_real.rmpi`
// (OpenMPI, binary built by `make .../bin/c13_real.rmpi`); the digest of the real run must lie in the enumerated set.
// Only operations whose result is exact on the position-coded data are cross-run (one digest expected), so the check is
// literal bit equality between the model-driven and the real execution. Skipped cleanly (counted, never failing) if
// mpirun or the binary is missing.
#include "c13_ops.hpp"
#include <mpi_explore.hpp>
#include <explore.hpp>
#include <vsched.h>
#include <unistd.h>

using namespace c13;

namespace
{
  struct XCfg { std::string kind; int a, b, refine, P; std::string assign; int space, bs; int renum = 0; };

  template<typename Mesh_, int space_id_, int BS_>
  bool model_digests(const Cfg& cf, int op, std::set<uint64_t>& digests, uint64_t& execs, bool& exact, std::string& err)
  {
    World<Mesh_, space_id_, BS_> w;
    if(!w.build(cf)) { err = w.error; return false; }
    exact = (op == op_gate || op == op_sync0 || op == op_apply || op == op_diag || op == op_lump || op == op_to1 || op == op_rect_apply || op == op_rect_to1 || op == op_empty) || (w.B.all_pow2 && op != op_pcg);
    for(int mode = 0; mode < 2; ++mode)
    {
      minimpi::Explorer ex;
      ex.max_executions = 5000;
      ex.explore([&](const std::vector<int>& prefix) -> bool
      {
        std::vector<RankOut> outs(static_cast<size_t>(cf.P));
        minimpi::set_mode(mode == 0 ? minimpi::eager : minimpi::rendezvous);
        vsched::reset(prefix, false);
        minimpi::run(cf.P, [&](int rank) { rank_body(w, op, rank, outs[size_t(rank)]); });
        digests.insert(digest(outs));
        return true;
      });
      execs += ex.stats.executions;
    }
    return true;
  }
  template<typename Mesh_>
  bool model_dispatch(const Cfg& cf, int op, std::set<uint64_t>& d, uint64_t& e, bool& x, std::string& err)
  {
    switch(cf.space * 2 + (cf.bs - 1))
    {
    case 0: return model_digests<Mesh_, sp_lagrange1, 1>(cf, op, d, e, x, err);
    case 1: return model_digests<Mesh_, sp_lagrange1, 2>(cf, op, d, e, x, err);
    case 2: return model_digests<Mesh_, sp_lagrange2, 1>(cf, op, d, e, x, err);
    case 3: return model_digests<Mesh_, sp_lagrange2, 2>(cf, op, d, e, x, err);
    case 4: return model_digests<Mesh_, sp_crouzeix, 1>(cf, op, d, e, x, err);
    case 5: return model_digests<Mesh_, sp_crouzeix, 2>(cf, op, d, e, x, err);
    case 6: return model_digests<Mesh_, sp_p0, 1>(cf, op, d, e, x, err);
    default: return model_digests<Mesh_, sp_p0, 2>(cf, op, d, e, x, err);
    }
  }
}

int main(int argc, char** argv)
{
  Runtime::ScopeGuard guard(argc, argv);
  verif::Spec spec;
  spec.property = "C13";
  spec.harness = "c13_crossrun";
  spec.rule = "case = (configuration of c13_sync, operation with an exact result); the digest set enumerated under the MPI model is compared with the digest "
    "of a real OpenMPI run (mpirun -n P) of the same rank body. Non-trivial = the real run happened, hashed by (configuration, operation).";
  spec.bounds_quick = "2 configurations (P=2, P=3) x 2 operations";
  spec.bounds_thorough = "10 configurations P in {2,3,4} (quads 2x2, 3x2, 2x2 refined, triangle fan; Lagrange1/2, CroRavRanTur; scalar and blocked) x 9 exact operations (3 configurations with scrambled patch numbering)";
  spec.assumptions = {"OpenMPI as shipped in the image is a conforming MPI implementation; one real schedule per run (whatever the machine produces)",
    "the cross-run is evidence for the model, it never decides the property: it is skipped if mpirun or build/<tag>/bin/c13_real.rmpi is missing"};
  spec.deadline_quick_s = 170; spec.deadline_thorough_s = 1500;
  spec.max_jobs = 4;

  // locate the real binary next to this one, and mpirun
  std::string realbin;
  {
    char buf[4096]; ssize_t n = readlink("/proc/self/exe", buf, sizeof buf - 1);
    if(n > 0) { buf[n] = 0; std::string p(buf); size_t s = p.rfind('/'); if(s != std::string::npos) realbin = p.substr(0, s) + "/c13_real.rmpi"; }
  }
  const bool have_bin = !realbin.empty() && access(realbin.c_str(), X_OK) == 0;
  const bool have_mpirun = (system("command -v mpirun > /dev/null 2>&1") == 0);

  return verif::run(spec, argc, argv, [&](verif::Ctx& c)
  {
    const bool T = c.thorough;
    std::vector<XCfg> cfgs;
    cfgs.push_back({"block", 2, 2, 0, 2, "0110", sp_lagrange1, 1});
    cfgs.push_back({"block", 2, 2, 0, 3, "0122", sp_lagrange2, 2, 1});
    if(T)
    {
      cfgs.push_back({"block", 2, 2, 0, 4, "0123", sp_lagrange1, 1});
      cfgs.push_back({"block", 2, 2, 0, 4, "0123", sp_lagrange2, 2});
      cfgs.push_back({"block", 2, 2, 0, 4, "0123", sp_crouzeix, 1});
      cfgs.push_back({"block", 3, 2, 0, 3, "012210", sp_lagrange1, 2});
      cfgs.push_back({"block", 2, 2, 1, 4, "0123", sp_lagrange2, 1});
      cfgs.push_back({"star", 4, 0, 0, 4, "0123", sp_lagrange1, 1});
      cfgs.push_back({"star", 5, 0, 0, 3, "01201", sp_crouzeix, 2});
      cfgs.push_back({"star", 4, 0, 0, 2, "0101", sp_p0, 1});
      cfgs.push_back({"block", 2, 2, 0, 4, "0123", sp_lagrange2, 2, 1});   // scrambled patch numberings: mirrors not ascending
      cfgs.push_back({"block", 3, 2, 0, 3, "012210", sp_lagrange1, 2, 3});
      cfgs.push_back({"star", 4, 0, 0, 4, "0123", sp_crouzeix, 1, 2});
    }
    std::vector<int> ops = {op_sync0, op_apply};
    if(T) ops = {op_gate, op_sync0, op_sync1, op_apply, op_diag, op_lump, op_to1, op_rect_to1, op_splitter};
    for(const XCfg& x : cfgs)
    for(int op : ops)
    {
      if(!c.want()) continue;
      Cfg cf; cf.refine = x.refine; cf.P = x.P; cf.space = x.space; cf.bs = x.bs; cf.renum = x.renum;
      for(char ch : x.assign) cf.assign.push_back(ch - '0');
      cf.mesh = (x.kind == "block") ? vm::gen_block(2, x.a, x.b, 0) : vm::gen_star(true, 2, x.a);
      c.desc([&]{ return cf.str() + " operation=" + op_name(op); });
      std::set<uint64_t> digests; uint64_t execs = 0; bool exact = false; std::string err;
      const bool ok = (x.kind == "block")
        ? model_dispatch<Geometry::ConformalMesh<Shape::Hypercube<2>, 2, double>>(cf, op, digests, execs, exact, err)
        : model_dispatch<Geometry::ConformalMesh<Shape::Simplex<2>, 2, double>>(cf, op, digests, execs, exact, err);
      if(!ok) { c.fail("harness: world construction", err); continue; }
      c.count("executions", execs);
      if(!exact) { c.excluded("operation involves a division by a sharing count that is not a power of two on this configuration"); continue; }
      c.check(digests.size() == 1, std::string("order dependence: ") + op_name(op), [&]{ return std::to_string(digests.size()) + " digests under the model"; });
      if(!have_mpirun || !have_bin) { c.count(have_mpirun ? "skipped: c13_real.rmpi not built" : "skipped: mpirun not found"); c.outcome("skipped"); continue; }
      char cmd[8192];
      snprintf(cmd, sizeof cmd, "mpirun --allow-run-as-root --oversubscribe --bind-to none -n %d '%s' %s %d %d %d %s %d %d %d %d 2>&1", x.P, realbin.c_str(), x.kind.c_str(), x.a, x.b, x.refine, x.assign.c_str(), x.space, x.bs, op, x.renum);
      FILE* fp = popen(cmd, "r");
      std::string outp; unsigned long long dg = 0; bool have = false;
      if(fp)
      {
        char line[1024];
        while(fgets(line, sizeof line, fp)) { if(outp.size() < 2000) outp += line; const char* p = strstr(line, "digest="); if(p && strncmp(line, "C13REAL", 7) == 0) { dg = strtoull(p + 7, nullptr, 16); have = true; } }
        const int st = pclose(fp);
        if(st != 0) have = false;
      }
      if(!c.check(have, "cross-run: real MPI run failed", [&]{ return "command: " + std::string(cmd) + " output: " + outp; })) continue;
      c.count("real_mpi_runs");
      c.count("traces_validated_against_impl");
      c.check(digests.count(uint64_t(dg)) == 1, std::string("cross-run: real digest not in the enumerated set: ") + op_name(op), [&]
      {
        char b[256]; snprintf(b, sizeof b, "real OpenMPI run gives digest %016llx, the model enumerates %zu digest(s), first %016llx", dg, digests.size(), (unsigned long long)*digests.begin());
        return std::string(b);
      });
      c.outcome("real digest in model set");
      c.nontrivial(verif::Hash().str(cf.str()).pod(op).get());
    }
  });
}
