// C07 (b) real iterative solvers, UnitFilter (one or two fixed dofs). Body in c07_solvers.hpp.
#include <c07_solvers.hpp>
int main(int argc, char** argv)
{
  FEAT::Runtime::ScopeGuard guard(argc, argv);
  verif::Spec spec; c07::fill_spec(spec, "c07_solvers_uf", "Unit{0} / Unit{n-1} (thorough: Unit{1})");
  spec.bounds_quick = "as c07_solvers, systems with n >= 2, unit filter on dof 0 or dof n-1 (filtered rhs, filtered start vectors)";
  spec.bounds_thorough = "additionally Unit{1}; all scalings, rhs all free e_i, all 16 limit combinations, histories of 3 operations";
  return verif::run(spec, argc, argv, [&](verif::Ctx& c) { c07::enumerate<c07::LocalPolicy<FEAT::LAFEM::UnitFilter<double, FEAT::Index>>>(c, true); });
}
