// C03 (part 2, SparseMatrixBCSR): axpy, scale, scale_rows, scale_cols, norm_frobenius, row_norm2, row_norm2sqr(+scal), lump_rows,
// extract_diag(+indices), max/min(_abs)_element for ALL block patterns of small block grids, and both add_double_mat_product
// overloads (BCSR*BCSR*BCSR and CSR*BCSR*CSR) for ALL block-pattern tuples, against the dense definition on the scalar level.
#include <c03_common.hpp>
#include <c03_unary.hpp>

using namespace c03;

namespace
{
  template<typename DT, typename IT> std::string tp() { return std::string(dtname<DT>()) + "," + itname<IT>(); }

  template<typename DT_, typename IT_, int BH, int BW>
  struct BcsrTraits
  {
    typedef DT_ DT; typedef IT_ IT; typedef SparseMatrixBCSR<DT, IT, BH, BW> M;
    typedef DenseVectorBlocked<DT, IT, BH> VL; typedef DenseVectorBlocked<DT, IT, BW> VR;
    typedef SparseMatrixBCSR<DT, typename OtherIndex<IT>::type, BH, BW> MO;
    struct Aux { int mb, nb; uint64_t bbits; };
    static constexpr bool has_shrink = false;
    static const char* prefix() { return "bcsr."; }
    static M build(const DenseRef& D, int rep, const Aux& x) { return build_bcsr<DT, IT, BH, BW>(D, x.mb, x.nb, x.bbits, rep); }
    static const DT* val(const M& a) { return a.template val<Perspective::pod>(); }
    static VL make_l(const Aux& x) { return VL(Index(x.mb)); }
    static VR make_r(const Aux& x) { return VR(Index(x.nb)); }
    static int block_rows(const Aux& x) { return x.mb; }
    static std::vector<std::pair<int, int>> entries(const DenseRef&, const Aux& x)
    {
      std::vector<std::pair<int, int>> e;
      for(int I = 0; I < x.mb; ++I) for(int J = 0; J < x.nb; ++J) if((x.bbits >> (I * x.nb + J)) & 1u)
        for(int bi = 0; bi < BH; ++bi) for(int bj = 0; bj < BW; ++bj) e.push_back({I * BH + bi, J * BW + bj});
      return e;
    }
    static Index diag_index(const DenseRef&, const Aux& x, int I0)
    { Index k = 0; for(int I = 0; I < x.mb; ++I) for(int J = 0; J < x.nb; ++J) if((x.bbits >> (I * x.nb + J)) & 1u) { if(I == I0 && J == I0) return k; ++k; } return k; }
  };

  template<typename DT, typename IT, int BH, int BW>
  void enum_unary(verif::Ctx& c)
  {
    typedef BcsrTraits<DT, IT, BH, BW> T;
    const auto ucs = ucases(false);
    const std::string bs = std::to_string(BH) + "x" + std::to_string(BW);
    for(int s = 2; s <= 6; ++s) for(int mb = 1; mb <= 3; ++mb)
    {
      const int nb = s - mb; if(nb < 1 || nb > 3) continue;
      if(!c.thorough && mb * nb > 6) continue;
      for(uint64_t bbits = 0; bbits < (uint64_t(1) << (mb * nb)); ++bbits)
        for(int rep = 0; rep < (bbits == 0 ? 2 : 1); ++rep)
          for(const Variant& var : uvariants(mb * nb <= 4))
            for(const UCase& uc : ucs)
            {
              const int alphabet = var.alphabet;
              if(uc.op == U_DIAG && (mb != nb || BH != BW)) continue;
              if(uc.op >= U_MAXABS && uc.op <= U_MIN && bbits == 0) continue;
              if(!alphabet_applies(uc.op, alphabet)) continue;
              if(alphabet == 3 && uc.op == U_SCALE && !scalars[uc.var % 7].dyadic) continue;
              if(var.scenario != S_BASE && (bbits == 0 || rep != 0)) continue;
              if(!c.want()) continue;
              set_extreme_exp<DT>();
              const DenseRef D = dense_from_blocks(mb, nb, BH, BW, bbits, alphabet == 3 ? 0 : alphabet);
              const bool ef = (bbits == 0 && rep == 0);
              static const char* sn[9] = {"", "", "", " operands=deep-clones", " operands=shallow-clones", " operands=weak-clones", " operands=moved", " operands=index-type-round-trip", ""};
              c.desc([&]{ return "bcsr<" + tp<DT, IT>() + "," + bs + "> blocks " + std::to_string(mb) + "x" + std::to_string(nb) + " blockpattern=" + std::to_string(bbits) + " scalar " + D.str()
                + (bbits == 0 ? (rep ? " rep=allocated-empty " : " rep=entry-free ") : " ") + uname[uc.op] + " variant=" + std::to_string(uc.var) + " alphabet=" + alphabet_name(alphabet) + sn[var.scenario]; });
              guarded(c, ef, std::string("entry-free operand bcsr.") + uname[uc.op], [&]{ run_unary<T>(c, uc, D, rep, alphabet, typename T::Aux{mb, nb, bbits}, var.scenario); });
              if(bbits != 0) c.nontrivial(verif::Hash().str("ub").str(tp<DT, IT>()).pod(BH).pod(BW).pod(mb).pod(nb).pod(bbits).pod(uc).pod(var).get());
              c.outcome(std::string("bcsr/") + uname[uc.op]);
              c.count("operations");
            }
    }
  }

  // ------------------------------------------------------------------------------------------ double products
  enum { P_BBB, P_CBC };
  static const char* pname[2] = {"bcsr.add_double_mat_product", "bcsr.add_double_mat_product(csr,bcsr,csr)"};
  static const int palpha[5] = {1, 2, 3, 5, 0};
  struct PDims { int m, k, l, n; };

  inline bool bit(uint64_t b, int i) { return ((b >> i) & 1u) != 0; }

  /// scalar dense reference of a block operand (id selects the value family); kron=true: scalar pattern (x) identity of size BS
  DenseRef scalar_ref(int id, int rows, int cols, uint64_t bits, int BS, bool kron, int alphabet)
  {
    DenseRef d(rows * BS, cols * BS);
    for(int I = 0; I < rows; ++I) for(int J = 0; J < cols; ++J) if(bit(bits, I * cols + J))
    {
      if(kron) { for(int b = 0; b < BS; ++b) d.set(I * BS + b, J * BS + b, mval(id, alphabet, I, J)); }
      else for(int bi = 0; bi < BS; ++bi) for(int bj = 0; bj < BS; ++bj) d.set(I * BS + bi, J * BS + bj, mval(id, alphabet, I * BS + bi, J * BS + bj));
    }
    return d;
  }
  /// un-kron: scalar matrix of the CSR operand
  DenseRef unkron(const DenseRef& k, int BS)
  {
    DenseRef d(k.m / BS, k.n / BS);
    for(int i = 0; i < d.m; ++i) for(int j = 0; j < d.n; ++j) if(k.has(i * BS, j * BS)) d.set(i, j, k.at(i * BS, j * BS));
    return d;
  }

  template<typename DT, typename IT, int BS>
  void run_product(verif::Ctx& c, int pop, const PDims& d, uint64_t bx, uint64_t bd, uint64_t ba, uint64_t bb, int rep, bool allow, bool complete, bool validate_fork)
  {
    typedef SparseMatrixBCSR<DT, IT, BS, BS> MB; typedef SparseMatrixCSR<DT, IT> MC;
    const std::string key = pname[pop];
    const LD eps = LD(std::numeric_limits<DT>::epsilon());
    const bool efd = (bd == 0 && rep == 0), efa = (ba == 0 && rep == 0), efx = (bx == 0 && rep == 0), efb = (bb == 0 && rep == 0);
    const bool ef = efd || efa || efx || efb;
    const std::string efkey = std::string("entry-free operand ") + pname[pop] + " " + (efd ? "d" : efa ? "a" : efx ? "this" : "b");
    for(int alphabet = 0; alphabet < 2; ++alphabet)
    {
      DenseRef X = scalar_ref(0, d.m, d.n, bx, BS, false, alphabet), Dd = scalar_ref(1, d.m, d.k, bd, BS, pop == P_CBC, alphabet),
        A = scalar_ref(2, d.k, d.l, ba, BS, false, alphabet), B = scalar_ref(3, d.l, d.n, bb, BS, pop == P_CBC, alphabet);
      for(DenseRef* p : {&X, &Dd, &A, &B}) for(auto& v : p->a) v = LD(DT(v));
      MB ma = build_bcsr<DT, IT, BS, BS>(A, d.k, d.l, ba, rep);
      MB mdb, mbb; MC mdc, mbc;
      if(pop == P_BBB) { mdb = build_bcsr<DT, IT, BS, BS>(Dd, d.m, d.k, bd, rep); mbb = build_bcsr<DT, IT, BS, BS>(B, d.l, d.n, bb, rep); }
      else { mdc = build_csr<DT, IT>(unkron(Dd, BS), rep); mbc = build_csr<DT, IT>(unkron(B, BS), rep); }
      const uint64_t ha = hash_of(ma), hd = (pop == P_BBB) ? hash_of(mdb) : hash_of(mdc), hb = (pop == P_BBB) ? hash_of(mbb) : hash_of(mbc);
      for(int ai = 0; ai < 5; ++ai)
      {
        const Scalar& sc = scalars[palpha[ai]]; const LD alpha = LD(DT(sc.v));
        MB mx = build_bcsr<DT, IT, BS, BS>(X, d.m, d.n, bx, rep);
        const uint64_t sx = hash_structure(mx);
        auto op = [&]{ if(pop == P_BBB) mx.add_double_mat_product(mdb, ma, mbb, DT(alpha), allow); else mx.add_double_mat_product(mdc, ma, mbc, DT(alpha), allow); };
        const int st = trapped(op);
        c.count("operations");
        if(validate_fork && ai == 0 && alphabet == 0)
        {
          MB mx2 = build_bcsr<DT, IT, BS, BS>(X, d.m, d.n, bx, rep); mx = std::move(mx2);
          const int fs = c.run_forked(op);
          if(c.check(fs == st, key + " trap!=fork", [&]{ return "in-process trap saw status " + std::to_string(st) + ", the forked run " + std::to_string(fs); })) c.count("trap_matches_fork");
        }
        if(!complete && !allow)
        {
          c.count("required_abort_operations");
          if(st == SIGABRT) continue;
          if(st == 0) { c.fail(key + " no-abort", "incomplete output pattern with allow_incomplete=false: the operation returned instead of aborting (silently wrong values)"); return; }
          if(ef) { c.count("entry_free_operand_crashes"); fail_throttled(c, efkey, "operation died with signal " + std::to_string(st) + " instead of the required abort (the entry-free representation has no arrays)"); return; }
          c.fail(key + " wrong-death", "expected SIGABRT, got signal " + std::to_string(st)); return;
        }
        if(st != 0)
        {
          if(ef) { c.count("entry_free_operand_crashes"); fail_throttled(c, efkey, "operation died with signal " + std::to_string(st) + " (the entry-free representation has no arrays: null row pointer dereferenced or val() throws)"); return; }
          c.fail(key + (st == SIGABRT ? " spurious-abort" : " crash"), "operation died with signal " + std::to_string(st) + " although the output pattern is " + (complete ? "complete" : "allowed to be incomplete")); return;
        }
        if(ef) c.count("entry_free_operand_handled_correctly");
        if(!c.check(hash_structure(mx) == sx, key + " structure-modified", "layout of the output matrix changed")) return;
        if(!c.check(hash_of(ma) == ha && ((pop == P_BBB) ? (hash_of(mdb) == hd && hash_of(mbb) == hb) : (hash_of(mdc) == hd && hash_of(mbc) == hb)), key + " operand-modified", "an input operand was modified")) return;
        const bool exact = (alphabet == 0) && sc.dyadic && std::is_same<DT, double>::value;
        const DT* xv = mx.template val<Perspective::pod>();
        size_t kk = 0;
        for(int I = 0; I < d.m; ++I) for(int J = 0; J < d.n; ++J) if(bit(bx, I * d.n + J))
          for(int bi = 0; bi < BS; ++bi) for(int bj = 0; bj < BS; ++bj)
          {
            const int i = I * BS + bi, j = J * BS + bj;
            LD s = 0, as = 0;
            for(int k = 0; k < Dd.n; ++k) if(Dd.has(i, k)) for(int l = 0; l < A.n; ++l) if(A.has(k, l) && B.has(l, j))
            { const LD t = Dd.at(i, k) * A.at(k, l) * B.at(l, j); s += t; as += fabsl(t); }
            const LD expect = X.at(i, j) + alpha * s;
            if(!near<DT>(c, key + (complete ? "" : " allow_incomplete"), xv[kk], expect, exact, LD(8 * (Dd.n * A.n + 2)) * eps * (fabsl(X.at(i, j)) + fabsl(alpha) * as),
              "scalar entry (" + std::to_string(i) + "," + std::to_string(j) + ") alpha=" + sc.name + (alphabet ? " rounding" : " exact"))) return;
            ++kk;
          }
      }
    }
    // ---- extra executions (lessons 2, 3, 4), see c03_algebra.cpp: all-negative alphabet / product added twice / derived operands
    if((!complete && !allow) || ef) return;
    for(int extra = 0; extra < 3; ++extra)
    {
      const int alphabet = (extra == 0) ? 2 : 0;
      DenseRef X = scalar_ref(0, d.m, d.n, bx, BS, false, alphabet), Dd = scalar_ref(1, d.m, d.k, bd, BS, pop == P_CBC, alphabet),
        A = scalar_ref(2, d.k, d.l, ba, BS, false, alphabet), B = scalar_ref(3, d.l, d.n, bb, BS, pop == P_CBC, alphabet);
      for(DenseRef* p : {&X, &Dd, &A, &B}) for(auto& v : p->a) v = LD(DT(v));
      MB sa = build_bcsr<DT, IT, BS, BS>(A, d.k, d.l, ba, rep), sx = build_bcsr<DT, IT, BS, BS>(X, d.m, d.n, bx, rep);
      MB sdb, sbb; MC sdc, sbc;
      if(pop == P_BBB) { sdb = build_bcsr<DT, IT, BS, BS>(Dd, d.m, d.k, bd, rep); sbb = build_bcsr<DT, IT, BS, BS>(B, d.l, d.n, bb, rep); }
      else { sdc = build_csr<DT, IT>(unkron(Dd, BS), rep); sbc = build_csr<DT, IT>(unkron(B, BS), rep); }
      const bool der = (extra == 2);
      MB ma = der ? sa.clone(CloneMode::Weak) : sa.clone(CloneMode::Shallow);
      MB mx = der ? sx.clone(CloneMode::Weak) : sx.clone(CloneMode::Shallow);
      MB mdb = sdb.clone(CloneMode::Shallow), mbb; MC mdc = sdc.clone(CloneMode::Shallow), mbc;
      if(der) { MB t = sbb.clone(CloneMode::Deep); MB moved(std::move(t)); mbb = std::move(moved); MC t2 = sbc.clone(CloneMode::Deep); MC moved2(std::move(t2)); mbc = std::move(moved2); }
      else { mbb = sbb.clone(CloneMode::Shallow); mbc = sbc.clone(CloneMode::Shallow); }
      const uint64_t ha = hash_of(sa), hx0 = hash_of(sx), sxs = hash_structure(mx),
        hd = (pop == P_BBB) ? hash_of(sdb) : hash_of(sdc), hb = (pop == P_BBB) ? hash_of(sbb) : hash_of(sbc);
      const LD alpha = (extra == 0) ? LD(1) : (extra == 1) ? LD(0.5L) : LD(-1);
      const int reps = (extra == 1) ? 2 : 1;
      auto op = [&]{ for(int q = 0; q < reps; ++q) { if(pop == P_BBB) mx.add_double_mat_product(mdb, ma, mbb, DT(alpha), allow); else mx.add_double_mat_product(mdc, ma, mbc, DT(alpha), allow); } };
      const int st = trapped(op);
      c.count("operations", uint64_t(reps));
      static const char* en[3] = {" all-negative", " re-invocation", " derived-operands"};
      c.count(extra == 0 ? "all_negative_product_executions" : extra == 1 ? "re_invocations" : "derived_object_cases");
      if(st != 0) { c.fail(key + en[extra] + " crash", "operation died with signal " + std::to_string(st)); return; }
      if(!c.check(hash_structure(mx) == sxs, key + en[extra] + " structure-modified", "layout of the output matrix changed")) return;
      if(!c.check(hash_of(sa) == ha && ((pop == P_BBB) ? (hash_of(sdb) == hd && hash_of(sbb) == hb) : (hash_of(sdc) == hd && hash_of(sbc) == hb)), key + en[extra] + " operand-modified", "an input operand (source of a derived operand) was modified")) return;
      if(der && !c.check(hash_of(sx) == hx0, key + en[extra] + " bystander-modified", "the matrix whose layout the output matrix shares (weak clone) was modified")) return;
      const bool exact = std::is_same<DT, double>::value;
      const DT* xv = mx.template val<Perspective::pod>();
      size_t kk = 0;
      for(int I = 0; I < d.m; ++I) for(int J = 0; J < d.n; ++J) if(bit(bx, I * d.n + J))
        for(int bi = 0; bi < BS; ++bi) for(int bj = 0; bj < BS; ++bj)
        {
          const int i = I * BS + bi, j = J * BS + bj;
          LD s2 = 0, as = 0;
          for(int k = 0; k < Dd.n; ++k) if(Dd.has(i, k)) for(int l = 0; l < A.n; ++l) if(A.has(k, l) && B.has(l, j))
          { const LD t = Dd.at(i, k) * A.at(k, l) * B.at(l, j); s2 += t; as += fabsl(t); }
          const LD expect = X.at(i, j) + LD(reps) * alpha * s2;
          if(!near<DT>(c, key + en[extra], xv[kk], expect, exact, LD(8 * (Dd.n * A.n + 2)) * eps * (fabsl(X.at(i, j)) + as), "scalar entry (" + std::to_string(i) + "," + std::to_string(j) + ")")) return;
          ++kk;
        }
    }
  }


  // ------------------------------------------------------------------------------------------ add_trace_double_mat_mult
  // v <- v + alpha * diag(D * diag(a) * B) on the scalar level, B = this (l x m blocks of BH x BHD), D (m x l blocks of BHD x BH), a (l blocks of BH), v (m blocks of BHD)
  inline DenseRef block_ref(int id, int rows, int cols, int bh, int bw, uint64_t bits, int alphabet)
  {
    DenseRef d(rows * bh, cols * bw);
    for(int I = 0; I < rows; ++I) for(int J = 0; J < cols; ++J) if(bit(bits, I * cols + J))
      for(int bi = 0; bi < bh; ++bi) for(int bj = 0; bj < bw; ++bj) d.set(I * bh + bi, J * bw + bj, mval(id, alphabet, I * bh + bi, J * bw + bj));
    return d;
  }

  template<typename DT, typename IT, int BHD, int BH>
  void enum_trace(verif::Ctx& c)
  {
    typedef SparseMatrixBCSR<DT, IT, BH, BHD> MB; typedef SparseMatrixBCSR<DT, IT, BHD, BH> MD;
    typedef DenseVectorBlocked<DT, IT, BH> VA; typedef DenseVectorBlocked<DT, IT, BHD> VV;
    const std::string key = "bcsr.add_trace_double_mat_mult";
    const LD eps = LD(std::numeric_limits<DT>::epsilon());
    for(int m = 1; m <= 2; ++m) for(int l = 1; l <= 2; ++l)
      for(uint64_t all = 0; all < (uint64_t(1) << (2 * m * l)); ++all)
        for(int alphabet = 0; alphabet < 3; ++alphabet)
          for(int ai = 0; ai < 5; ++ai)
          {
            if(!c.want()) continue;
            const uint64_t bd = all & ((uint64_t(1) << (m * l)) - 1), bb = all >> (m * l);
            const Scalar& sc = scalars[palpha[ai]]; const LD alpha = LD(DT(sc.v));
            c.desc([&]{ std::ostringstream o; o << key << "<" << tp<DT, IT>() << "> D blocks " << BHD << "x" << BH << ", B blocks " << BH << "x" << BHD << ", m=" << m << " l=" << l
              << " block patterns D=" << bd << " B=" << bb << " alpha=" << sc.name << " alphabet=" << alphabet_name(alphabet); return o.str(); });
            DenseRef Dd = block_ref(1, m, l, BHD, BH, bd, alphabet), B = block_ref(3, l, m, BH, BHD, bb, alphabet);
            for(DenseRef* p : {&Dd, &B}) for(auto& v : p->a) v = LD(DT(v));
            // matrices without blocks in the allocated representation (entry-free operands: recorded class, not generated here)
            MD md = build_bcsr<DT, IT, BHD, BH>(Dd, m, l, bd, 1); MB mb = build_bcsr<DT, IT, BH, BHD>(B, l, m, bb, 1);
            VA va{Index(l)}; VV vv{Index(m)};
            std::vector<LD> af, vf; for(int q = 0; q < l * BH; ++q) af.push_back(LD(DT(sval(alphabet, q)))); for(int q = 0; q < m * BHD; ++q) vf.push_back(LD(DT(yval(alphabet, q))));
            vfill(va, af); vfill(vv, vf);
            const uint64_t hd = hash_of(md), hb = hash_of(mb); const auto as = vflat(va);
            const bool exact = alphabet_exact(alphabet) && sc.dyadic && std::is_same<DT, double>::value;
            std::vector<LD> cur = vf;
            for(int pass = 0; pass < 2; ++pass)   // pass 1: accumulates onto the result of pass 0
            {
              mb.template add_trace_double_mat_mult<BHD>(vv, md, va, DT(alpha));
              c.count("operations"); if(pass) c.count("re_invocations");
              const auto got = vflat(vv);
              bool ok = true;
              for(int i = 0; i < m * BHD && ok; ++i)
              {
                LD s2 = 0, ab = 0; for(int q = 0; q < l * BH; ++q) if(Dd.has(i, q) && B.has(q, i)) { const LD t = Dd.at(i, q) * af[size_t(q)] * B.at(q, i); s2 += t; ab += fabsl(t); }
                const LD expect = cur[size_t(i)] + alpha * s2;
                ok = near<DT>(c, key + (pass ? " re-invocation" : ""), got[size_t(i)], expect, exact, LD(8 * (l * BH + 2)) * eps * (fabsl(cur[size_t(i)]) + fabsl(alpha) * ab), "component " + std::to_string(i));
                cur[size_t(i)] = LD(got[size_t(i)]);
              }
              if(!ok) break;
            }
            c.check(hash_of(md) == hd && hash_of(mb) == hb && same_bits(as, vflat(va)), key + " operand-modified", "an input operand was modified");
            if(bd != 0 && bb != 0) c.nontrivial(verif::Hash().str("tr").str(tp<DT, IT>()).pod(BHD).pod(BH).pod(m).pod(l).pod(all).pod(alphabet).pod(ai).get());
            c.outcome(key);
          }
  }

  inline bool is_complete(const PDims& d, uint64_t bx, uint64_t bd, uint64_t ba, uint64_t bb)
  {
    for(int i = 0; i < d.m; ++i) for(int j = 0; j < d.n; ++j)
    {
      if(bit(bx, i * d.n + j)) continue;
      for(int k = 0; k < d.k; ++k) if(bit(bd, i * d.k + k)) for(int l = 0; l < d.l; ++l) if(bit(ba, k * d.l + l) && bit(bb, l * d.n + j)) return false;
    }
    return true;
  }

  template<typename DT, typename IT, int BS>
  void enum_products(verif::Ctx& c, int maxbits_quick, int maxbits_thorough)
  {
    const std::string bs = std::to_string(BS) + "x" + std::to_string(BS);
    for(int pop = 0; pop < 2; ++pop)
      for(int m = 1; m <= 2; ++m) for(int k = 1; k <= 2; ++k) for(int l = 1; l <= 2; ++l) for(int n = 1; n <= 2; ++n)
      {
        const PDims d{m, k, l, n};
        const int nx = m * n, nd = m * k, na = k * l, nb = l * n, total = nx + nd + na + nb;
        if(total > (c.thorough ? maxbits_thorough : maxbits_quick)) continue;
        for(uint64_t all = 0; all < (uint64_t(1) << total); ++all)
        {
          const uint64_t bx = all & ((uint64_t(1) << nx) - 1), bd = (all >> nx) & ((uint64_t(1) << nd) - 1),
            ba = (all >> (nx + nd)) & ((uint64_t(1) << na) - 1), bb = (all >> (nx + nd + na)) & ((uint64_t(1) << nb) - 1);
          const bool complete = is_complete(d, bx, bd, ba, bb);
          const bool any_empty = (bx == 0 || bd == 0 || bb == 0 || ba == 0);
          for(int rep = 0; rep < (any_empty ? 2 : 1); ++rep)
            for(int allow = 0; allow < 2; ++allow)
            {
              if(!c.want()) continue;
              const bool dies = (!complete && !allow);
              c.desc([&]{ std::ostringstream o; o << pname[pop] << "<" << tp<DT, IT>() << "," << bs << "> block dims m,k,l,n=" << m << "," << k << "," << l << "," << n
                << " block patterns X=" << bx << " D=" << bd << " A=" << ba << " B=" << bb << (any_empty ? (rep ? " empty-rep=allocated" : " empty-rep=entry-free") : "")
                << " allow_incomplete=" << allow << (complete ? " complete" : " INCOMPLETE") << " alpha in {1,-1,1/2,0.3,0} x {exact,rounding} alphabet"; return o.str(); });
              const bool validate = (dies || (any_empty && rep == 0)) && (all % 97 == 0);
              const bool efd = (bd == 0 && rep == 0), efa = ((ba == 0) && rep == 0), efx = (bx == 0 && rep == 0), efb = (bb == 0 && rep == 0);
              product_case(c, efd || efa || efx || efb, dies, all, pname[pop], std::string("entry-free operand ") + pname[pop] + " " + (efd ? "d" : efa ? "a" : efx ? "this" : "b"),
                [&]{ run_product<DT, IT, BS>(c, pop, d, bx, bd, ba, bb, rep, allow != 0, complete, validate); });
              if(bd != 0 && bb != 0 && ba != 0) c.nontrivial(verif::Hash().str("pb").str(tp<DT, IT>()).pod(BS).pod(pop).pod(d).pod(all).pod(rep).pod(allow).get());
              c.outcome(std::string(pname[pop]) + (dies ? " must-abort" : complete ? " complete" : " incomplete-allowed"));
            }
        }
      }
  }
}

int main(int argc, char** argv)
{
  FEAT::Runtime::ScopeGuard guard(argc, argv);
  verif::Spec spec; spec.property = "C03"; spec.harness = "c03_algebra_bcsr"; spec.max_fail_per_worker = 1000000; spec.case_timeout_s = 120;
  spec.rule = "element-wise ops: case = (type pair, block shape, block grid, one of ALL block patterns, representation of the empty pattern, operation + variant, alphabet {exact, rounding, all-negative, extreme magnitudes} or (exact alphabet) operands that are deep/shallow/weak clones, moved or index-type-converted objects, target = weak clone of a bystander); every operation is invoked twice on the same objects; "
    "products: case = (overload, block dimension tuple, one of ALL block-pattern tuples (X,D,A,B), empty representation, allow_incomplete), each executed for alpha in {1,-1,1/2,0.3,0} x {exact, rounding} + all-negative alphabet + product added twice (re-invocation) + derived operands (clones / moved, output = weak clone of a bystander); "
    "non-trivial = pattern(s) with entries; hash over all of these";
  spec.bounds_quick = "element-wise: block shapes 2x2,2x3,3x2,3x3 (double,u64), 2x2 (float,u32), 3x2 (double,u32); block grids up to 2x3/3x2 (170 block patterns); "
    "products: 2x2 blocks (double,u64) block dims {1,2}^4 with <= 14 pattern bits, 3x3 blocks <= 10 bits, (float,u32) 2x2 <= 10 bits; required aborts trapped in-process (1/97 sample re-run forked)";
  spec.bounds_thorough = "element-wise: block grids up to 3x3 (682 block patterns); products: 2x2 blocks all {1,2}^4 (65536 tuples for 2,2,2,2), 3x3 blocks <= 14 bits, float <= 14 bits";
  spec.assumptions = {
    "oracle: dense long double formulas on the scalar expansion of the block matrices, restricted to the stored blocks of the output",
    "exact alphabet compared with == (double); float products, rounding alphabet, alpha=0.3, sqrt based norms: relative bound 8(terms+2) eps",
    "entry-free operands SparseMatrixBCSR(m,n)/SparseMatrixCSR(m,n) are generated; a death by signal is reported under 'entry-free operand bcsr.<op> [operand]'",
    "add_trace_double_mat_mult: all block patterns of D (m x l) and B (l x m), m,l in {1,2}, block shapes (2,2),(2,3),(3,2), empty operands in the allocated representation", "out of scope of C03 (other properties): apply (C01), transpose/permute/convert/layout constructors/set_line (C02), file I/O (C05), the *_blocked_generic vector kernels of scale/norm/max_abs_index (called by DenseVectorBlocked only, C04), MKL/CUDA back ends", "excluded (API preconditions): extract_diag for non-square grids / non-square blocks; products with non-square blocks (XASSERT BlockHeight==BlockWidth); min/max of a matrix without entries"};
  return verif::run(spec, argc, argv, [&](verif::Ctx& c) {
    enum_unary<double, std::uint64_t, 2, 2>(c); enum_unary<double, std::uint64_t, 2, 3>(c); enum_unary<double, std::uint64_t, 3, 2>(c); enum_unary<double, std::uint64_t, 3, 3>(c);
    enum_unary<float, std::uint32_t, 2, 2>(c); enum_unary<double, std::uint32_t, 3, 2>(c);
    enum_products<double, std::uint64_t, 2>(c, 14, 16);
    enum_products<double, std::uint64_t, 3>(c, 10, 14);
    enum_products<float, std::uint32_t, 2>(c, 10, 14);
    enum_trace<double, std::uint64_t, 2, 2>(c); enum_trace<double, std::uint64_t, 2, 3>(c); enum_trace<double, std::uint64_t, 3, 2>(c); enum_trace<float, std::uint32_t, 2, 2>(c);
  });
}
