// c13_core.hpp -- C13 Tier 1: per-rank worlds (patch, space, mirrors, type-0 matrix, filter), the base-level oracle
// data and the rank bodies of the operations. Included by the c13_sync*.cpp harnesses.
//
// Oracle (never uses FEAT's global layer): the base mesh carries a finite element space of its own; every patch dof
// is mapped to a base dof GEOMETRICALLY (entity = sorted exact vertex coordinates, dof = DofAssignment of that entity),
// the base vectors are position-coded dyadic rationals, the base operator is the sum of exact dyadic "element
// matrices" E_K(i,j) that depend only on (base cell K, base dofs i,j); the type-0 matrix of a patch is the sum over
// its own cells. All sums and products are exactly representable, so results that do not involve a division by a
// sharing count other than 1, 2, 4, 8 must be bit-identical to the oracle and identical for every arrival order.
#pragma once
#include <verif.hpp>
#include <kernel/runtime.hpp>
#include <kernel/util/dist.hpp>
#include <kernel/geometry/conformal_mesh.hpp>
#include <kernel/geometry/mesh_node.hpp>
#include <kernel/geometry/mesh_part.hpp>
#include <kernel/trafo/standard/mapping.hpp>
#include <kernel/space/lagrange1/element.hpp>
#include <kernel/space/lagrange2/element.hpp>
#include <kernel/space/cro_rav_ran_tur/element.hpp>
#include <kernel/space/discontinuous/element.hpp>
#include <kernel/assembly/mirror_assembler.hpp>
#include <kernel/assembly/symbolic_assembler.hpp>
#include <kernel/lafem/dense_vector.hpp>
#include <kernel/lafem/dense_vector_blocked.hpp>
#include <kernel/lafem/sparse_matrix_csr.hpp>
#include <kernel/lafem/sparse_matrix_bcsr.hpp>
#include <kernel/lafem/unit_filter.hpp>
#include <kernel/lafem/unit_filter_blocked.hpp>
#include <kernel/lafem/vector_mirror.hpp>
#include <kernel/global/gate.hpp>
#include <kernel/global/vector.hpp>
#include <kernel/global/matrix.hpp>
#include <kernel/global/filter.hpp>
#include <kernel/global/muxer.hpp>
#include <kernel/global/splitter.hpp>
#include <kernel/solver/pcg.hpp>
#include <kernel/solver/jacobi_precond.hpp>
#include <c10_meshlib.hpp>
#include <mpi.h>
#include <cmath>
#include <cstring>

namespace c13
{
  using namespace FEAT;

  // -------------------------------------------------------------------------------------------------
  // vector kinds
  // -------------------------------------------------------------------------------------------------
  template<int BS_> struct Kind;
  template<> struct Kind<1>
  {
    static constexpr int bs = 1;
    typedef LAFEM::DenseVector<double, Index> Vec;
    typedef LAFEM::SparseMatrixCSR<double, Index> Mat;
    typedef LAFEM::UnitFilter<double, Index> Filt;
    static const char* name() { return "scalar"; }
    static void filt_add(Filt& f, Index i, const double* v) { f.add(i, v[0]); }
  };
  template<> struct Kind<2>
  {
    static constexpr int bs = 2;
    typedef LAFEM::DenseVectorBlocked<double, Index, 2> Vec;
    typedef LAFEM::SparseMatrixBCSR<double, Index, 2, 2> Mat;
    typedef LAFEM::UnitFilterBlocked<double, Index, 2> Filt;
    static const char* name() { return "blocked2"; }
    static void filt_add(Filt& f, Index i, const double* v) { Tiny::Vector<double, 2> t; t[0] = v[0]; t[1] = v[1]; f.add(i, t); }
  };
  typedef LAFEM::VectorMirror<double, Index> Mirror;

  template<typename V_> inline auto raw(V_& v) -> decltype(v.template elements<LAFEM::Perspective::pod>()) { return v.template elements<LAFEM::Perspective::pod>(); }

  inline double* matval(LAFEM::SparseMatrixCSR<double, Index>& m) { return m.val(); }
  inline const double* matval(const LAFEM::SparseMatrixCSR<double, Index>& m) { return m.val(); }
  template<int h_, int w_> inline double* matval(LAFEM::SparseMatrixBCSR<double, Index, h_, w_>& m) { return m.template val<LAFEM::Perspective::pod>(); }
  template<int h_, int w_> inline const double* matval(const LAFEM::SparseMatrixBCSR<double, Index, h_, w_>& m) { return m.template val<LAFEM::Perspective::pod>(); }

  /// the symmetric positive definite 2x2 block of the blocked operator A (x) B
  inline double blockB(int a, int b) { static const double B[2][2] = {{2.0, 0.5}, {0.5, 1.0}}; return B[a][b]; }

  /// the 2x3 block of the rectangular-block operator A (x) R (row space blocked<2>, column space blocked<3>)
  inline double blockR(int a, int b) { static const double R[2][3] = {{1.0, 0.5, -0.25}, {0.25, 2.0, 0.5}}; return R[a][b]; }

  // -------------------------------------------------------------------------------------------------
  // position-coded exact data
  // -------------------------------------------------------------------------------------------------
  inline double val_u(Index i, int c) { return double(int((i * 5 + Index(3 * c)) % 17) - 8) / 4.0; }
  inline double val_v(Index i, int c) { return double(int((i * 3 + Index(c)) % 13) - 6) / 2.0; }
  inline double val_w(int rank, Index i, int c) { return double(int((i * 7 + Index(11 * rank + 5 * c)) % 19) - 9) / 4.0; }
  inline double val_w2(int rank, Index i, int c) { return double(int((i * 3 + Index(7 * rank + 2 * c)) % 23) - 11) / 8.0; }
  inline double val_g(Index i, int c) { return double(int((i + Index(c)) % 5)) / 2.0; }
  inline bool in_dirichlet(Index i) { return (i % 4) == 1; }
  /// exact dyadic "element matrix" entry of base cell K for the base dofs (ga, gb); symmetric, diagonally dominant
  inline double val_E(Index K, Index ga, Index gb, int nloc)
  {
    const double cK = double(1 + (K % 2));
    if(ga == gb) return cK * (double(nloc + 2) + 0.25 * double(ga % 4));
    return cK * 0.25 * double(1 + ((ga + gb) % 3));
  }

  // -------------------------------------------------------------------------------------------------
  // spaces
  // -------------------------------------------------------------------------------------------------
  enum SpaceId { sp_lagrange1 = 0, sp_lagrange2, sp_crouzeix, sp_p0, sp_count };
  inline const char* space_name(int s) { static const char* n[] = {"Lagrange1", "Lagrange2", "CroRavRanTur", "DiscontinuousP0"}; return n[s]; }
  template<typename Trafo_, int id_> struct SpaceOf;
  template<typename Trafo_> struct SpaceOf<Trafo_, sp_lagrange1> { typedef Space::Lagrange1::Element<Trafo_> Type; };
  template<typename Trafo_> struct SpaceOf<Trafo_, sp_lagrange2> { typedef Space::Lagrange2::Element<Trafo_> Type; };
  template<typename Trafo_> struct SpaceOf<Trafo_, sp_crouzeix> { typedef Space::CroRavRanTur::Element<Trafo_> Type; };
  template<typename Trafo_> struct SpaceOf<Trafo_, sp_p0> { typedef Space::Discontinuous::Element<Trafo_, Space::Discontinuous::Variant::StdPolyP<0>> Type; };

  // -------------------------------------------------------------------------------------------------
  // geometric entity keys (as in c12_partition: exact fixed point coordinates of the vertices, sorted)
  // -------------------------------------------------------------------------------------------------
  typedef std::vector<std::array<vm::i64, 3>> GKey;
  inline GKey gkey(const vm::PMesh& M, int d, Index e)
  {
    GKey k;
    if(d == 0) k.push_back(M.vtx[size_t(e)]);
    else for(int j = 0; j < M.cnt(d, 0); ++j) k.push_back(M.vtx[size_t(M.tup(d, 0, e)[j])]);
    std::sort(k.begin(), k.end());
    return k;
  }

  template<typename Space_, int dim_, int d_ = dim_>
  struct EntityDofs
  {
    /// dofs[d][entity] = list of dof indices assigned to that entity
    static void collect(const Space_& space, const Index* num_entities, std::vector<std::vector<Index>>* dofs)
    {
      typename Space_::template DofAssignment<d_>::Type da(space);
      dofs[d_].assign(size_t(num_entities[d_]), std::vector<Index>());
      for(Index e = 0; e < num_entities[d_]; ++e)
      {
        da.prepare(e);
        for(int k = 0; k < da.get_num_assigned_dofs(); ++k) dofs[d_][size_t(e)].push_back(da.get_index(k));
        da.finish();
      }
      if constexpr(d_ > 0) EntityDofs<Space_, dim_, d_ - 1>::collect(space, num_entities, dofs);
    }
  };

  // -------------------------------------------------------------------------------------------------
  // configuration of one case
  // -------------------------------------------------------------------------------------------------
  struct Cfg
  {
    vm::MeshSpec mesh;
    int refine = 0;              // joint refinements of base and patches after the extraction
    int P = 1;
    std::vector<int> assign;     // base cell -> rank
    int space = 0;
    int bs = 1;
    int renum = 0;               // local renumbering of every patch mesh: 0 none, 1 reversed, 2 rotated by rank+1, 3 FEAT's random strategy
    std::string str() const
    {
      std::string a; for(int x : assign) a += char('0' + x);
      return vm::spec_str(mesh) + " refine=" + std::to_string(refine) + " P=" + std::to_string(P) + " cell->rank=" + a + " space=" + space_name(space) + " kind=" + (bs == 1 ? "scalar" : "blocked2") + " patch-numbering=" + (renum == 0 ? "natural" : renum == 1 ? "reversed" : renum == 2 ? "rotated" : "random");
    }
  };

  inline Adjacency::Graph make_graph(const std::vector<int>& a, int p)
  {
    const Index n = Index(a.size());
    Adjacency::Graph g(Index(p), n, n);
    Index* ptr = g.get_domain_ptr(); Index* idx = g.get_image_idx();
    Index k = 0;
    for(int r = 0; r < p; ++r) { ptr[r] = k; for(Index i = 0; i < n; ++i) if(a[size_t(i)] == r) idx[k++] = i; }
    ptr[p] = k;
    return g;
  }

  // -------------------------------------------------------------------------------------------------
  // base level data (the oracle's world)
  // -------------------------------------------------------------------------------------------------
  struct BaseData
  {
    Index N = 0;                                  // base dofs
    int nloc = 0;
    std::vector<std::vector<Index>> cell_dofs;    // base cell -> base dofs
    std::vector<double> A;                        // dense N x N, exact
    std::vector<int> count;                       // number of patches sharing each base dof
    bool all_pow2 = true;                         // every count in {1,2,4,8}
    int max_count = 1;
    double a(Index i, Index j) const { return A[size_t(i) * size_t(N) + size_t(j)]; }
  };

  /// results of one rank in one execution
  struct RankOut
  {
    static constexpr int nvec = 6;
    std::vector<double> vec[6];     // result vectors (pod layout)
    std::vector<double> scal;       // result scalars
    std::vector<double> mat;        // matrix values (convert_to_1)
    std::string note;               // failures detected inside the rank thread
  };

  template<typename Mesh_, int space_id_, int BS_>
  struct World
  {
    typedef Mesh_ MeshType;
    typedef Geometry::RootMeshNode<MeshType> NodeType;
    typedef Geometry::MeshPart<MeshType> PartType;
    typedef Trafo::Standard::Mapping<MeshType> TrafoType;
    typedef typename SpaceOf<TrafoType, space_id_>::Type SpaceType;
    typedef Kind<BS_> K;
    typedef typename K::Vec Vec;
    typedef typename K::Mat Mat;
    typedef typename K::Filt Filt;
    typedef Global::Gate<Vec, Mirror> GateType;
    typedef Global::Vector<Vec, Mirror> GVec;
    typedef Global::Matrix<Mat, Mirror, Mirror> GMat;
    typedef Global::Filter<Filt, Mirror> GFilt;
    static constexpr int dim = MeshType::shape_dim;
    static constexpr int bs = BS_;

    struct Level
    {
      std::unique_ptr<NodeType> node;
      std::unique_ptr<TrafoType> trafo;
      std::unique_ptr<SpaceType> space;
      void make_space() { trafo.reset(new TrafoType(*node->get_mesh())); space.reset(new SpaceType(*trafo)); }
    };
    struct Rank
    {
      Level lvl;
      std::vector<int> nb;             // neighbour ranks with a non-empty mirror, in halo-map order
      std::vector<Mirror> mirrors;
      std::vector<int> all_nb;         // all halo neighbours, including those with an empty mirror
      std::vector<Mirror> all_mirrors;
      int halos = 0, empty_mirrors = 0;
      std::vector<Index> p2b;          // patch dof -> base dof
      Mat A0;                          // type-0 matrix of the patch
      LAFEM::SparseMatrixBCSR<double, Index, 2, 3> A0r;   // rectangular-block type-0 matrix (blocked kind only)
      int nonasc = 0;                  // mirrors whose index array is not ascending
      Filt filt;
      Index ndofs = 0;
    };

    Cfg cfg;
    Level base;
    BaseData B;
    std::vector<std::unique_ptr<Rank>> ranks;
    Mat A_base; Filt filt_base;
    std::string error;               // harness-level problem while building (reported as a failure)

    // ---------------------------------------------------------------------------------------------
    template<typename MatT_, typename BlockFn_>
    static void fill_matrix_t(MatT_& M, int bh, int bw, BlockFn_ blockfn, const SpaceType& space, const std::vector<Index>& to_base, const std::vector<Index>& cell_to_base_cell, int nloc)
    {
      Assembly::SymbolicAssembler::assemble_matrix_std1(M, space);
      M.format(0.0);
      const Index* rp = M.row_ptr(); const Index* ci = M.col_ind();
      double* va = matval(M);
      typename SpaceType::DofMappingType dm(space);
      const Index ncells = space.get_mesh().get_num_elements();
      for(Index c = 0; c < ncells; ++c)
      {
        dm.prepare(c);
        const int n = dm.get_num_local_dofs();
        for(int a = 0; a < n; ++a) for(int b = 0; b < n; ++b)
        {
          const Index i = dm.get_index(a), j = dm.get_index(b);
          const double e = val_E(cell_to_base_cell[size_t(c)], to_base[size_t(i)], to_base[size_t(j)], nloc);
          Index pos = rp[i]; while(pos < rp[i + 1] && ci[pos] != j) ++pos;
          if(pos >= rp[i + 1]) XABORTM("c13: symbolic pattern lacks a cell coupling");
          for(int p = 0; p < bh; ++p) for(int q = 0; q < bw; ++q) va[size_t(pos) * size_t(bh * bw) + size_t(p * bw + q)] += e * blockfn(p, q);
        }
        dm.finish();
      }
    }
    static void fill_matrix(Mat& M, const SpaceType& space, const std::vector<Index>& to_base, const std::vector<Index>& cell_to_base_cell, int nloc)
    {
      fill_matrix_t(M, bs, bs, [](int p, int q) { return bs == 1 ? 1.0 : blockB(p, q); }, space, to_base, cell_to_base_cell, nloc);
    }

    /// local renumbering of a patch mesh (all entity dimensions) through the mesh permutation facility of FEAT; halos and
    /// mesh parts follow (RootMeshNode::set_permutation), so the halo ORDER stays consistent between neighbours while the
    /// indices -- and with them the mirror index arrays -- are no longer ascending
    static void renumber(NodeType& node, int renum, int rank)
    {
      if(renum == 0) return;
      if(renum == 3) { node.create_permutation(Geometry::PermutationStrategy::random); return; }
      typedef Geometry::MeshPermutation<typename MeshType::ShapeType> MP;
      MP mp;
      auto& pa = mp.create_other();
      for(int d = 0; d <= dim; ++d)
      {
        const Index n = node.get_mesh()->get_num_entities(d);
        std::vector<Index> v(static_cast<size_t>(n));
        for(Index k = 0; k < n; ++k) v[size_t(k)] = (renum == 1) ? (n - 1 - k) : ((k + Index(rank + 1)) % n);
        pa[size_t(d)] = Adjacency::Permutation(n, Adjacency::Permutation::ConstrType::perm, v.data());
        mp._inv_perms[size_t(d)] = pa[size_t(d)].inverse();
      }
      node.set_permutation(std::move(mp));
    }

    static void fill_filter(Filt& f, Index ndofs, const std::vector<Index>& to_base)
    {
      f = Filt(ndofs);
      for(Index j = 0; j < ndofs; ++j) if(in_dirichlet(to_base[size_t(j)])) { double v[2] = {val_g(to_base[size_t(j)], 0), val_g(to_base[size_t(j)], 1)}; K::filt_add(f, j, v); }
    }

    /// builds everything that does not depend on the schedule
    bool build(const Cfg& cf)
    {
      cfg = cf;
      const int P = cfg.P;
      const int qbits = 3 * cfg.refine + 1;
      // base
      base.node = NodeType::make_unique(vm::build_mesh<MeshType>(cfg.mesh, true));
      // patches: every rank extracts its own patch from its own copy of the base mesh (as every MPI process does)
      const Adjacency::Graph graph = make_graph(cfg.assign, P);
      ranks.clear();
      for(int r = 0; r < P; ++r)
      {
        std::unique_ptr<Rank> R(new Rank());
        std::unique_ptr<NodeType> mybase = NodeType::make_unique(vm::build_mesh<MeshType>(cfg.mesh, true));
        std::vector<int> comm;
        R->lvl.node = mybase->extract_patch(comm, graph, r);
        for(int l = 0; l < cfg.refine; ++l) R->lvl.node = R->lvl.node->refine_unique(Geometry::AdaptMode::none);
        renumber(*R->lvl.node, cfg.renum, r);
        ranks.push_back(std::move(R));
      }
      for(int l = 0; l < cfg.refine; ++l) base.node = base.node->refine_unique(Geometry::AdaptMode::none);
      base.make_space();
      B = BaseData();
      B.N = base.space->get_num_dofs();
      // base geometry and dofs per entity
      vm::PMesh BM; std::string err;
      if(!vm::extract_mesh(BM, *base.node->get_mesh(), qbits, &err)) { error = "base mesh not on the lattice: " + err; return false; }
      std::map<GKey, Index> bmap[4];
      for(int d = 0; d <= dim; ++d) for(Index e = 0; e < BM.n[d]; ++e) bmap[d].emplace(gkey(BM, d, e), e);
      std::vector<std::vector<Index>> bdofs[4];
      {
        Index ne[4] = {0, 0, 0, 0}; for(int d = 0; d <= dim; ++d) ne[d] = base.node->get_mesh()->get_num_entities(d);
        EntityDofs<SpaceType, dim>::collect(*base.space, ne, bdofs);
      }
      {
        typename SpaceType::DofMappingType dm(*base.space);
        const Index nc = base.node->get_mesh()->get_num_elements();
        B.cell_dofs.resize(size_t(nc));
        for(Index c = 0; c < nc; ++c) { dm.prepare(c); B.nloc = dm.get_num_local_dofs(); for(int a = 0; a < B.nloc; ++a) B.cell_dofs[size_t(c)].push_back(dm.get_index(a)); dm.finish(); }
        B.A.assign(size_t(B.N) * size_t(B.N), 0.0);
        for(Index c = 0; c < nc; ++c) for(Index i : B.cell_dofs[size_t(c)]) for(Index j : B.cell_dofs[size_t(c)]) B.A[size_t(i) * size_t(B.N) + size_t(j)] += val_E(c, i, j, B.nloc);
      }
      B.count.assign(size_t(B.N), 0);
      // ranks
      for(int r = 0; r < P; ++r)
      {
        Rank& R = *ranks[size_t(r)];
        R.lvl.make_space();
        R.ndofs = R.lvl.space->get_num_dofs();
        vm::PMesh PM;
        if(!vm::extract_mesh(PM, *R.lvl.node->get_mesh(), qbits, &err)) { error = "patch mesh not on the lattice: " + err; return false; }
        std::vector<std::vector<Index>> pdofs[4];
        Index ne[4] = {0, 0, 0, 0}; for(int d = 0; d <= dim; ++d) ne[d] = R.lvl.node->get_mesh()->get_num_entities(d);
        EntityDofs<SpaceType, dim>::collect(*R.lvl.space, ne, pdofs);
        R.p2b.assign(size_t(R.ndofs), ~Index(0));
        std::vector<Index> cell2base(size_t(ne[dim]), 0);
        for(int d = 0; d <= dim; ++d) for(Index e = 0; e < ne[d]; ++e)
        {
          auto it = bmap[d].find(gkey(PM, d, e));
          if(it == bmap[d].end()) { error = "patch entity not found in the base mesh (C12 territory)"; return false; }
          if(d == dim) cell2base[size_t(e)] = it->second;
          const auto& pd = pdofs[d][size_t(e)]; const auto& bd = bdofs[d][size_t(it->second)];
          if(pd.size() != bd.size()) { error = "dof assignment of patch and base entity differ"; return false; }
          for(size_t k = 0; k < pd.size(); ++k) R.p2b[size_t(pd[k])] = bd[k];
        }
        std::vector<char> seen(size_t(B.N), 0);
        for(Index j = 0; j < R.ndofs; ++j)
        {
          if(R.p2b[size_t(j)] == ~Index(0)) { error = "patch dof without an entity"; return false; }
          if(seen[size_t(R.p2b[size_t(j)])]) { error = "patch->base dof map not injective"; return false; }
          seen[size_t(R.p2b[size_t(j)])] = 1;
          ++B.count[size_t(R.p2b[size_t(j)])];
        }
        // mirrors: the loop of Control::Asm::asm_gate on kernel level
        for(const auto& h : R.lvl.node->get_halo_map())
        {
          ++R.halos;
          Mirror m;
          Assembly::MirrorAssembler::assemble_mirror(m, *R.lvl.space, *h.second);
          R.all_nb.push_back(h.first); R.all_mirrors.push_back(m.clone(LAFEM::CloneMode::Deep));
          if(m.empty()) { ++R.empty_mirrors; continue; }
          { const Index* mi = m.indices(); bool asc = true; for(Index q = 1; q < m.num_indices(); ++q) if(mi[q] < mi[q - 1]) asc = false; if(!asc) ++R.nonasc; }
          R.nb.push_back(h.first);
          R.mirrors.push_back(std::move(m));
        }
        fill_matrix(R.A0, *R.lvl.space, R.p2b, cell2base, B.nloc);
        if constexpr(BS_ == 2) fill_matrix_t(R.A0r, 2, 3, [](int p, int q) { return blockR(p, q); }, *R.lvl.space, R.p2b, cell2base, B.nloc);
        fill_filter(R.filt, R.ndofs, R.p2b);
      }
      for(Index i = 0; i < B.N; ++i)
      {
        const int cn = B.count[size_t(i)];
        if(cn < 1) { error = "base dof not covered by any patch"; return false; }
        if(cn > B.max_count) B.max_count = cn;
        if(cn != 1 && cn != 2 && cn != 4 && cn != 8) B.all_pow2 = false;
      }
      // base-level FEAT objects for the P=1 solver run
      {
        std::vector<Index> id(size_t(B.N)); for(Index i = 0; i < B.N; ++i) id[size_t(i)] = i;
        std::vector<Index> cid(size_t(base.node->get_mesh()->get_num_elements())); for(size_t i = 0; i < cid.size(); ++i) cid[i] = Index(i);
        fill_matrix(A_base, *base.space, id, cid, B.nloc);
        fill_filter(filt_base, B.N, id);
      }
      return true;
    }
  };
  /// iterates all surjective maps {0..n-1} -> {0..p-1}
  inline bool next_assign(std::vector<int>& a, int p)
  {
    for(;;)
    {
      size_t i = 0;
      while(i < a.size() && a[i] == p - 1) { a[i] = 0; ++i; }
      if(i == a.size()) return false;
      ++a[i];
      std::vector<char> seen(size_t(p), 0); int ns = 0;
      for(int x : a) if(!seen[size_t(x)]) { seen[size_t(x)] = 1; ++ns; }
      if(ns == p) return true;
    }
  }
  inline bool first_assign(std::vector<int>& a, size_t n, int p)
  {
    a.assign(n, 0);
    if(p == 1) return n > 0;
    if(size_t(p) > n) return false;
    return next_assign(a, p);
  }
} // namespace c13
