// c16_burgers_impl.hpp -- C16: route agreement of the Burgers assemblers WITH streamline diffusion: classic
// BurgersAssembler (matrix, scalar matrix) vs BurgersBlockedMatrixAssemblyJob / BurgersScalarMatrixAssemblyJob
// (DomainAssembler, 0 threads), and the Burgers vector jobs vs (job matrix) * primal. The integral oracle does not
// apply (the local stabilisation parameter is not polynomial); the property clause checked is "classic cell-loop
// assemblers and domain-assembler jobs produce the same result for the same input".
// The convection fields include rigid vortices / stagnation fields centred at the barycentre of every cell of the small
// meshes (first, middle and last cells of the larger ones), so that a cell with vanishing mean velocity -- where the
// stabilisation parameter has to be zero -- occurs at every position of the assembly order.
#pragma once
#include <c16_blocked_impl.hpp>

namespace c16s
{
  using namespace FEAT;
  using namespace c16;
  using namespace c16b;

  template<typename Shape_, typename Velo_>
  struct SdChecker
  {
    static constexpr int D = Shape_::dimension;
    typedef typename MeshCtx<Shape_>::MeshType MeshType;
    typedef Trafo::Standard::Mapping<MeshType> TrafoType;
    typedef typename Velo_::template Space<TrafoType> VeloSpace;

    verif::Ctx& c;
    MeshCtx<Shape_>& mc;
    std::string kp;
    TrafoType trafo;
    VeloSpace velo;
    std::unique_ptr<Assembly::DomainAssembler<TrafoType>> dom_asm;

    SdChecker(verif::Ctx& c_, MeshCtx<Shape_>& mc_) : c(c_), mc(mc_), trafo(*mc_.mesh), velo(trafo)
    {
      kp = std::string(ShapeInfo<Shape_>::name()) + " " + Velo_::name() + " burgers-sd";
      dom_asm.reset(new Assembly::DomainAssembler<TrafoType>(trafo));
      dom_asm->set_max_worker_threads(0);
      dom_asm->compile_all_elements();
    }

    BVec<D> interp(const Field<D>& f) const
    {
      PolyVectorFunction<D, D> pf(f);
      BVec<D> v;
      Assembly::Interpolator::project(v, pf, velo);
      return v;
    }

    /// the convection field family: (name class, field)
    std::vector<std::pair<std::string, Field<D>>> fields() const
    {
      std::vector<std::pair<std::string, Field<D>>> r;
      {
        Field<D> f; for(int i = 0; i < D; ++i) f[(size_t)i] = Poly<D>(LD(1) / LD(i + 1));
        r.emplace_back("constant", f);
      }
      {
        Field<D> f;
        for(int i = 0; i < D; ++i)
        {
          f[(size_t)i] = Poly<D>(LD(0.25 * (i + 1)));
          for(int j = 0; j < D; ++j) f[(size_t)i] += Poly<D>::var(j) * (LD((i + 2 * j) % 3 + 1) / 4) * ((i + j) & 1 ? LD(-1) : LD(1));
        }
        r.emplace_back("linear", f);
      }
      // stagnation cells: all cells of small meshes, first / middle / last otherwise
      const Index nc = Index(mc.geoms.size());
      std::vector<Index> cells;
      if(nc <= (D == 2 ? 16u : 8u)) for(Index k = 0; k < nc; ++k) cells.push_back(k);
      else { cells.push_back(0); cells.push_back(nc / 2); cells.push_back(nc - 1); }
      for(Index k : cells)
      {
        std::array<LD, D> ctr; for(int j = 0; j < D; ++j) ctr[(size_t)j] = ShapeInfo<Shape_>::is_simplex ? LD(1) / LD(D + 1) : LD(0);
        auto x0 = mc.geoms[k].map(ctr);
        // the harness meshes have dyadic vertex coordinates; the image of the reference centre is then exactly
        // representable (hypercubes, simplices in 3D: quarters) or rounded once (triangles: thirds) -- the assemblers
        // test |v(barycentre)| against sqrt(eps), so a rounding sized residual is still a stagnation cell
        Field<D> f;
        // rigid vortex about x0 (2D) / vortex about the z-axis through x0 plus axial stretching (3D): zero only at x0
        f[0] = (Poly<D>::var(1) - Poly<D>(LD(double(x0[1])))) * LD(-1);
        f[1] = Poly<D>::var(0) - Poly<D>(LD(double(x0[0])));
        if constexpr(D == 3) f[2] = (Poly<D>::var(2) - Poly<D>(LD(double(x0[2])))) * LD(0.5);
        r.emplace_back("vortex", f);
      }
      return r;
    }

    struct Cfg { bool defo; double nu, theta, beta, fbeta, sd; const char* name; };

    void run()
    {
      static const Cfg cfgs[] = {
        {false, 0.5, 0.0, 1.0, 0.0, 0.25, "conv+sd0.25"},
        {true, 1.0, 2.0, 1.5, 0.25, 1.0, "all+sd1"},
        {false, 0.0, 0.0, 0.0, 0.0, 1.0, "sd-only"}};
      const int extra = mc.affine ? 0 : D - 1;
      const int deg = 3 * Velo_::deg + extra;
      const String cn = ShapeInfo<Shape_>::is_simplex ? String("auto-degree:") + stringify(std::min(deg, 5)) : String("gauss-legendre:") + stringify(deg / 2 + 1);
      Cubature::DynamicFactory cf(cn);
      // primal vector for the vector jobs
      Field<D> pf; for(int i = 0; i < D; ++i) pf[(size_t)i] = Poly<D>(LD(0.5)) + Poly<D>::var(i) * LD(0.75) - Poly<D>::var((i + 1) % D) * LD(0.25);
      const BVec<D> primal = interp(pf);
      Vec sprimal; { PolyFunction<D> sf(pf[0]); Assembly::Interpolator::project(sprimal, sf, velo); }
      size_t ifield = 0;
      for(auto& nf : fields())
      {
        ++ifield;
        const BVec<D> vv = interp(nf.second);
        for(const Cfg& cg : cfgs)
        {
          const std::string k = kp + " " + nf.first + " " + cg.name;
          const double sd_nu = (cg.nu != 0.0 ? cg.nu : 0.5);
          // ---- blocked matrix
          Assembly::BurgersAssembler<double, Index, D> ba;
          ba.deformation = cg.defo; ba.nu = cg.nu; ba.theta = cg.theta; ba.beta = cg.beta; ba.frechet_beta = cg.fbeta;
          ba.sd_delta = cg.sd; ba.sd_nu = sd_nu; ba.set_sd_v_norm(vv);
          BCSR<D, D> A, B;
          Assembly::SymbolicAssembler::assemble_matrix_std1(A, velo);
          Assembly::SymbolicAssembler::assemble_matrix_std1(B, velo);
          A.format(); B.format();
          ba.assemble_matrix(A, vv, velo, cf);
          Assembly::BurgersBlockedMatrixAssemblyJob<BCSR<D, D>, VeloSpace, BVec<D>> job(B, vv, velo, cn);
          job.deformation = cg.defo; job.nu = cg.nu; job.theta = cg.theta; job.beta = cg.beta; job.frechet_beta = cg.fbeta;
          job.sd_delta = cg.sd; job.sd_nu = sd_nu; job.set_sd_v_norm(vv);
          dom_asm->assemble(job);
          c.count("route_comparisons");
          c.check(std::fabs(job.sd_v_norm - ba.sd_v_norm) <= 1e-14 * (1.0 + ba.sd_v_norm), k + " sd_v_norm", "job and classic assembler compute different convection norms");
          bool lay = false;
          double d = max_rel_diff_b<D, D>(A, B, &lay);
          c.check(lay && d <= 1e-12, k + " route.job-matrix", [&]{ return "BurgersBlockedMatrixAssemblyJob differs from BurgersAssembler::assemble_matrix by " + std::to_string(d) + " (relative), field #" + std::to_string(ifield) + " [" + BlockChecker<Shape_, Velo_, Velo_>::fstr(nf.second) + "]"; });
          // the streamline diffusion term must not vanish identically where it is the only term (non-vacuity)
          if(cg.nu == 0.0 && cg.beta == 0.0)
          {
            double mx = 0;
            for(Index kk = 0; kk < A.used_elements(); ++kk) for(int a = 0; a < D; ++a) for(int b = 0; b < D; ++b) mx = std::max(mx, std::fabs(A.val()[kk][a][b]));
            if(mx > 0) c.count("sd_only_matrices_nonzero");
          }
          // ---- blocked vector job == job matrix * primal
          {
            BVec<D> r1(velo.get_num_dofs()), r2(velo.get_num_dofs());
            r1.format(); r2.format();
            Assembly::BurgersBlockedVectorAssemblyJob<BVec<D>, VeloSpace> vjob(r1, primal, vv, velo, cn);
            vjob.deformation = cg.defo; vjob.nu = cg.nu; vjob.theta = cg.theta; vjob.beta = cg.beta; vjob.frechet_beta = cg.fbeta;
            vjob.sd_delta = cg.sd; vjob.sd_nu = sd_nu; vjob.set_sd_v_norm(vv);
            dom_asm->assemble(vjob);
            B.apply(r2, primal);
            double dd = 0, big = 1e-300;
            for(Index i = 0; i < r1.size(); ++i) for(int m = 0; m < D; ++m) { dd = std::max(dd, std::fabs(r1(i)[m] - r2(i)[m])); big = std::max(big, std::fabs(r2(i)[m])); }
            for(Index kk = 0; kk < B.used_elements(); ++kk) for(int a = 0; a < D; ++a) for(int b = 0; b < D; ++b) big = std::max(big, std::fabs(B.val()[kk][a][b]));
            c.check(dd <= 1e-11 * big, k + " route.job-vector", [&]{ return "BurgersBlockedVectorAssemblyJob differs from (job matrix)*primal by " + std::to_string(dd); });
            // and against the classic matrix
            BVec<D> r3(velo.get_num_dofs()); r3.format();
            A.apply(r3, primal);
            double d3 = 0;
            for(Index i = 0; i < r1.size(); ++i) for(int m = 0; m < D; ++m) d3 = std::max(d3, std::fabs(r1(i)[m] - r3(i)[m]));
            c.check(d3 <= 1e-11 * big, k + " route.job-vector-vs-classic", [&]{ return "BurgersBlockedVectorAssemblyJob differs from (classic matrix)*primal by " + std::to_string(d3); });
          }
          // ---- scalar matrix (no deformation / Frechet terms in the scalar operator)
          if(!cg.defo && cg.fbeta == 0.0)
          {
            CSR S, S2;
            Assembly::SymbolicAssembler::assemble_matrix_std1(S, velo);
            S2 = S.clone(LAFEM::CloneMode::Layout);
            S.format(); S2.format();
            ba.assemble_scalar_matrix(S, vv, velo, cf);
            Assembly::BurgersScalarMatrixAssemblyJob<CSR, VeloSpace, BVec<D>> sjob(S2, vv, velo, cn);
            sjob.nu = cg.nu; sjob.theta = cg.theta; sjob.beta = cg.beta; sjob.sd_delta = cg.sd; sjob.sd_nu = sd_nu; sjob.set_sd_v_norm(vv);
            dom_asm->assemble(sjob);
            bool l2 = false, bit = false;
            double ds = max_rel_diff(S, S2, &l2, &bit);
            c.count("route_comparisons");
            c.check(l2 && ds <= 1e-12, k + " route.job-scalar-matrix", [&]{ return "BurgersScalarMatrixAssemblyJob differs from BurgersAssembler::assemble_scalar_matrix by " + std::to_string(ds) + " (relative), field #" + std::to_string(ifield); });
            // scalar vector job == scalar job matrix * primal
            Vec q1(velo.get_num_dofs(), 0.0), q2(velo.get_num_dofs(), 0.0);
            Assembly::BurgersScalarVectorAssemblyJob<Vec, VeloSpace, BVec<D>> svjob(q1, sprimal, vv, velo, cn);
            svjob.nu = cg.nu; svjob.theta = cg.theta; svjob.beta = cg.beta; svjob.sd_delta = cg.sd; svjob.sd_nu = sd_nu; svjob.set_sd_v_norm(vv);
            dom_asm->assemble(svjob);
            S2.apply(q2, sprimal);
            double dq = 0, big = 1e-300;
            for(Index i = 0; i < q1.size(); ++i) { dq = std::max(dq, std::fabs(q1(i) - q2(i))); big = std::max(big, std::fabs(q2(i))); }
            for(Index kk = 0; kk < S2.used_elements(); ++kk) big = std::max(big, std::fabs(S2.val()[kk]));
            c.check(dq <= 1e-11 * big, k + " route.job-scalar-vector", [&]{ return "BurgersScalarVectorAssemblyJob differs from (scalar job matrix)*primal by " + std::to_string(dq); });
          }
        }
      }
      c.count("convection_fields", ifield);
    }
  };

  template<typename Shape_>
  void enumerate_sd_shape(verif::Ctx& c)
  {
    const std::string sn = ShapeInfo<Shape_>::name();
    auto fam = mesh_family<Shape_>(c.thorough);
    for(size_t im = 0; im < fam.size(); ++im)
    {
      const MeshSpec& ms = fam[im];
      // quick tier in 3D: the multi-cell meshes only (a stale per-cell state needs a predecessor cell)
      if(!c.thorough && Shape_::dimension == 3 && ms.kind == 0) continue;
      auto one = [&](const char* el, auto fn)
      {
        if(!c.want()) return;
        c.desc([&]{ return sn + " " + el + " burgers-sd mesh " + ms.str(); });
        MeshCtx<Shape_> mc = make_mesh<Shape_>(ms);
        fn(mc);
        c.nontrivial(verif::Hash().str(sn).str(el).str(ms.str()).get());
        c.outcome(sn + " " + el);
        c.count("cases");
        c.count("cells", mc.geoms.size());
      };
      one("L2", [&](MeshCtx<Shape_>& mc) { SdChecker<Shape_, VL2>(c, mc).run(); });
      one("L1", [&](MeshCtx<Shape_>& mc) { SdChecker<Shape_, VL1>(c, mc).run(); });
    }
  }

  template<bool three_d>
  int burgers_sd_main(int argc, char** argv, const char* harness_name)
  {
    Runtime::ScopeGuard guard(argc, argv);
    verif::Spec spec;
    spec.property = "C16";
    spec.harness = harness_name;
    spec.rule = "cases = (shape, mesh of the c16 family, velocity element in {Lagrange-2, Lagrange-1}); per case: convection fields {constant, linear, "
      "vortex/stagnation field centred at the barycentre of cell k for every cell k of the small meshes (first/middle/last cell of larger ones)} x Burgers "
      "configurations with streamline diffusion {nu=.5 beta=1 sd_delta=.25; deformation nu=1 theta=2 beta=1.5 frechet=.25 sd_delta=1; sd_delta=1 only}, "
      "sd_nu and sd_v_norm set as set_sd_v_norm does: BurgersBlockedMatrixAssemblyJob == BurgersAssembler::assemble_matrix, BurgersScalarMatrixAssemblyJob == "
      "assemble_scalar_matrix (1e-12 relative), blocked/scalar vector jobs == (job matrix)*primal and == (classic matrix)*primal. Non-trivial: every case.";
    spec.bounds_quick = "this binary: tria/quad (c16_burgers) full 2D family; tetra/hexa (c16_burgers3d): the multi-cell meshes of the quick family";
    spec.bounds_thorough = "3D: the full thorough family";
    spec.assumptions = {
      "route agreement only: the streamline diffusion term has no polynomial integrand, the integral oracle of the other C16 harnesses does not apply",
      "DomainAssembler with 0 worker threads: cells are assembled by one task in mesh order (threads: C17)",
      "classic BurgersAssembler::assemble_vector (defect route without Frechet/SD terms by design) is not part of this comparison",
      "set_sd_v_norm(Global::Vector) (MPI synchronised norm) is out of scope: the local-vector overload is used"};
    spec.max_fail_per_worker = 100000;
    return verif::run(spec, argc, argv, [&](verif::Ctx& c) {
      if constexpr(!three_d) { enumerate_sd_shape<Shape::Simplex<2>>(c); enumerate_sd_shape<Shape::Hypercube<2>>(c); }
      else { enumerate_sd_shape<Shape::Simplex<3>>(c); enumerate_sd_shape<Shape::Hypercube<3>>(c); }
    });
  }
} // namespace c16s
