// C01 (part 1): mat-vec products of the scalar sparse formats
//   SparseMatrixCSR (DenseVector and DenseVectorBlocked operands = csrsb kernel), SparseMatrixBWrappedCSR,
//   SparseMatrixCSCR
// against a dense long-double oracle, for ALL sparsity patterns of all small shapes.
#include <c01_common.hpp>
#include <kernel/lafem/sparse_matrix_cscr.hpp>
#include <kernel/lafem/sparse_matrix_bwrappedcsr.hpp>

using namespace c01;

namespace
{
  struct Shape { int m, n; };

  std::vector<Shape> shapes(bool thorough, bool with_zero)
  {
    std::vector<Shape> v;
    if(with_zero) { for(int k = 0; k <= 3; ++k) { v.push_back({0, k}); if(k) v.push_back({k, 0}); } }
    for(int s = 2; s <= 6; ++s) for(int m = 1; m <= 3; ++m) { int n = s - m; if(n >= 1 && n <= 3) v.push_back({m, n}); }
    if(thorough) { v.push_back({1, 4}); v.push_back({4, 1}); v.push_back({2, 4}); v.push_back({4, 2}); v.push_back({3, 4}); v.push_back({4, 3}); v.push_back({4, 4}); }
    return v;
  }

  template<typename DT, typename IT>
  std::string tp() { return std::string(dtname<DT>()) + "," + itname<IT>(); }

  // ------------------------------------------------------------------------------------------ CSR, scalar vectors
  template<typename DT, typename IT>
  void enum_csr(verif::Ctx& c)
  {
    typedef SparseMatrixCSR<DT, IT> M; typedef DenseVector<DT, IT> V;
    const auto ops = apply_cases(true);
    for(const Shape& sh : shapes(c.thorough, true))
    {
      const int bitsn = sh.m * sh.n;
      // 4x4 only with the exact alphabet and double/u64 + float/u32 (see bounds)
      const bool big = (bitsn >= 16);
      if(big && !(std::is_same<DT, double>::value == (sizeof(IT) == 8))) continue;
      for(uint64_t bits = 0; bits < (uint64_t(1) << bitsn); ++bits)
      {
        const int nreps = (bits == 0 && sh.m > 0 && sh.n > 0) ? 2 : 1;
        for(int rep = 0; rep < nreps; ++rep)
          for(int alphabet = 0; alphabet < (big ? 1 : 2); ++alphabet)
            for(const ApplyCase& op0 : ops)
            {
              if(!c.want()) continue;
              ApplyCase op = op0; op.alphabet = alphabet;
              const DenseRef D = dense_from_bits(sh.m, sh.n, bits, alphabet);
              c.desc([&]{ return "csr<" + tp<DT, IT>() + "> " + D.str() + (bits == 0 ? (rep ? " rep=allocated-empty" : " rep=entry-free") : "") + " " + op.str(); });
              M A = build_csr<DT, IT>(D, rep);
              // tie the container to the oracle
              bool same = (A.rows() == Index(sh.m) && A.columns() == Index(sh.n) && A.used_elements() == Index(D.nnz()));
              if(bits != 0 || rep == 1)
                for(int i = 0; i < sh.m && same; ++i) for(int j = 0; j < sh.n; ++j) if(!(A(Index(i), Index(j)) == DT(D.at(i, j)))) same = false;
              c.check(same, "csr.operator() != generator", "container does not represent the generated matrix");
              V r(Index(op.transposed ? sh.n : sh.m)), y(Index(op.transposed ? sh.n : sh.m)), x(Index(op.transposed ? sh.m : sh.n));
              const std::string kind = std::string("csr") + (bits == 0 ? (rep ? "[allocated-empty]" : "[entry-free]") : "");
              check_apply(c, kind, D, op, r, y, x,
                [&](int mode, V& rr, const V& xx, const V& yy, DT al) {
                  if(op.transposed) { if(mode == 0) A.apply_transposed(rr, xx); else A.apply_transposed(rr, xx, yy, al); }
                  else { if(mode == 0) A.apply(rr, xx); else A.apply(rr, xx, yy, al); } },
                [&]{ return hash_of(A); });
              const bool early = (bits == 0) || (op.mode && fabsl(scalars[op.alpha].v) < 1e-10L);
              if(!early) c.nontrivial(verif::Hash().str("csr").str(tp<DT, IT>()).pod(sh).pod(bits).pod(op.transposed).pod(op.mode).pod(op.alpha).pod(alphabet).get());
              c.excluded("same case with r aliasing x (XASSERT precondition)");
              c.outcome(std::string("csr/") + op.name() + (early ? " early-out" : ""));
              c.count("applies");
            }
      }
    }
  }

  // ------------------------------------------------------------------------------------------ CSR x blocked vectors (csrsb), BWrappedCSR
  template<typename DT, typename IT, int BS, bool wrapped>
  void enum_csrsb(verif::Ctx& c)
  {
    typedef SparseMatrixCSR<DT, IT> M; typedef DenseVectorBlocked<DT, IT, BS> V;
    const auto ops = apply_cases(false);
    for(const Shape& sh : shapes(false, !wrapped))
    {
      const int bitsn = sh.m * sh.n;
      for(uint64_t bits = 0; bits < (uint64_t(1) << bitsn); ++bits)
        for(int alphabet = 0; alphabet < 2; ++alphabet)
          for(const ApplyCase& op0 : ops)
          {
            if(!c.want()) continue;
            ApplyCase op = op0; op.alphabet = alphabet;
            const DenseRef D = dense_from_bits(sh.m, sh.n, bits, alphabet);
            // the operator the blocked apply represents: D (x) I_BS
            DenseRef E(sh.m * BS, sh.n * BS);
            for(int i = 0; i < sh.m; ++i) for(int j = 0; j < sh.n; ++j) if(D.has(i, j)) for(int b = 0; b < BS; ++b) E.set(i * BS + b, j * BS + b, D.at(i, j));
            const std::string kind = std::string(wrapped ? "bwrappedcsr" : "csr") + "<bs" + std::to_string(BS) + ">" + (bits == 0 ? "[entry-free]" : "");
            c.desc([&]{ return kind + "<" + tp<DT, IT>() + "> " + D.str() + " blocked vectors " + op.str(); });
            if constexpr(wrapped)
            {
              SparseMatrixBWrappedCSR<DT, IT, BS> A(build_csr<DT, IT>(D, 0));
              V r = A.create_vector_l(), y = A.create_vector_l(), x = A.create_vector_r();
              check_apply(c, kind, E, op, r, y, x,
                [&](int mode, V& rr, const V& xx, const V& yy, DT al) { if(mode == 0) A.apply(rr, xx); else A.apply(rr, xx, yy, al); },
                [&]{ return hash_of(A); });
            }
            else
            {
              M A = build_csr<DT, IT>(D, 0);
              V r{Index(sh.m)}, y{Index(sh.m)}, x{Index(sh.n)};
              check_apply(c, kind, E, op, r, y, x,
                [&](int mode, V& rr, const V& xx, const V& yy, DT al) { if(mode == 0) A.apply(rr, xx); else A.apply(rr, xx, yy, al); },
                [&]{ return hash_of(A); });
            }
            const bool early = (bits == 0) || (op.mode && fabsl(scalars[op.alpha].v) < 1e-10L);
            if(!early) c.nontrivial(verif::Hash().str(kind).str(tp<DT, IT>()).pod(sh).pod(bits).pod(op.mode).pod(op.alpha).pod(alphabet).get());
            c.outcome(std::string(wrapped ? "bwrappedcsr/" : "csrsb/") + op.name() + (early ? " early-out" : ""));
            c.count("applies");
          }
    }
  }

  // ------------------------------------------------------------------------------------------ CSCR
  template<typename DT, typename IT>
  void enum_cscr(verif::Ctx& c)
  {
    typedef SparseMatrixCSCR<DT, IT> M; typedef DenseVector<DT, IT> V;
    const auto ops = apply_cases(true);
    for(const Shape& sh : shapes(c.thorough, true))
    {
      const int bitsn = sh.m * sh.n;
      if(bitsn >= 16) continue;
      for(uint64_t bits = 0; bits < (uint64_t(1) << bitsn); ++bits)
      {
        // rows with entries must be "used"; every superset of them is a legal used-row set
        unsigned need = 0; for(int i = 0; i < sh.m; ++i) for(int j = 0; j < sh.n; ++j) if((bits >> (i * sh.n + j)) & 1u) need |= 1u << i;
        for(unsigned used = 0; used < (1u << sh.m); ++used)
        {
          if((used & need) != need) continue;
          if(bits == 0 && used != 0) continue; // the array constructor needs at least one entry; entry-free = CSCR(m,n)
          for(int alphabet = 0; alphabet < 2; ++alphabet)
            for(const ApplyCase& op0 : ops)
            {
              if(!c.want()) continue;
              ApplyCase op = op0; op.alphabet = alphabet;
              const DenseRef D = dense_from_bits(sh.m, sh.n, bits, alphabet);
              c.desc([&]{ return "cscr<" + tp<DT, IT>() + "> " + D.str() + " used_rows_mask=" + std::to_string(used) + " " + op.str(); });
              M A;
              if(bits == 0) A = M(Index(sh.m), Index(sh.n));
              else
              {
                const Index nnz = Index(D.nnz()); Index nur = 0; for(int i = 0; i < sh.m; ++i) nur += (used >> i) & 1u;
                DenseVector<DT, IT> val(nnz); DenseVector<IT, IT> ci(nnz), rp(nur + 1), rn(nur);
                Index k = 0, u = 0; rp.elements()[0] = IT(0);
                for(int i = 0; i < sh.m; ++i)
                {
                  if(!((used >> i) & 1u)) continue;
                  for(int j = 0; j < sh.n; ++j) if(D.has(i, j)) { val.elements()[k] = DT(D.at(i, j)); ci.elements()[k] = IT(j); ++k; }
                  rn.elements()[u] = IT(i); rp.elements()[++u] = IT(k);
                }
                A = M(Index(sh.m), Index(sh.n), ci, val, rp, rn);
              }
              bool same = (A.rows() == Index(sh.m) && A.columns() == Index(sh.n) && A.used_elements() == Index(D.nnz()));
              if(bits != 0) for(int i = 0; i < sh.m && same; ++i) for(int j = 0; j < sh.n; ++j) if(!(A(Index(i), Index(j)) == DT(D.at(i, j)))) same = false;
              c.check(same, "cscr.operator() != generator", "container does not represent the generated matrix");
              V r(Index(op.transposed ? sh.n : sh.m)), y(Index(op.transposed ? sh.n : sh.m)), x(Index(op.transposed ? sh.m : sh.n));
              const std::string kind = std::string("cscr") + (bits == 0 ? "[entry-free]" : (used != need ? "[empty used rows]" : ""));
              check_apply(c, kind, D, op, r, y, x,
                [&](int mode, V& rr, const V& xx, const V& yy, DT al) {
                  if(op.transposed) { if(mode == 0) A.apply_transposed(rr, xx); else A.apply_transposed(rr, xx, yy, al); }
                  else { if(mode == 0) A.apply(rr, xx); else A.apply(rr, xx, yy, al); } },
                [&]{ return hash_of(A); });
              const bool early = (bits == 0) || (op.mode && fabsl(scalars[op.alpha].v) < 1e-10L);
              if(!early) c.nontrivial(verif::Hash().str("cscr").str(tp<DT, IT>()).pod(sh).pod(bits).pod(used).pod(op.transposed).pod(op.mode).pod(op.alpha).pod(alphabet).get());
              c.outcome(std::string("cscr/") + op.name() + (early ? " early-out" : ""));
              c.count("applies");
            }
        }
      }
    }
  }
}

int main(int argc, char** argv)
{
  FEAT::Runtime::ScopeGuard guard(argc, argv);
  verif::Spec spec; spec.property = "C01"; spec.harness = "c01_apply_csr";
  spec.rule = "case = (container kind, data/index type pair, shape, one of ALL 2^(m*n) sparsity patterns, representation of the empty "
    "pattern / CSCR used-row superset, operation {apply, apply_transposed} x {r:=Ax, r:=y+aAx with r!=y, with r==y}, alpha, value alphabet); "
    "non-trivial = pattern has entries and |alpha|>=eps (no early-out); hash over all of these";
  spec.bounds_quick = "CSR, CSCR: shapes {0..3}x{0..3} (0 only entry-free), all patterns (682 + empties), type pairs (double,u64),(float,u32),(double,u32); "
    "CSR with DenseVectorBlocked<2>,<3> and BWrappedCSR<2>: shapes {1..3}^2; alpha in {0,1,-1,1/2,2,0.3,1e-20}; exact + rounding alphabet";
  spec.bounds_thorough = "quick + shapes 1x4,4x1,2x4,4x2,3x4,4x3 (all patterns, CSR and CSCR) + CSR 4x4 (65536 patterns, exact alphabet, (double,u64),(float,u32))";
  spec.assumptions = {
    "oracle: dense long double product written in the harness; operator()(i,j) of every generated container is compared with the generator",
    "exact alphabet: position coded dyadic values, result compared with ==; rounding alphabet / alpha in {0.3,1e-20}: |err| <= 8(len+2) eps (|A||x| max(1,|alpha|) + |y|)",
    "result vector r is pre-filled with NaN (r!=y cases), so a kernel reading r is detected",
    "excluded (API precondition): r aliasing x; vectors of wrong length; zero dimensions other than the entry-free constructor"};
  return verif::run(spec, argc, argv, [&](verif::Ctx& c) {
    enum_csr<double, std::uint64_t>(c);
    enum_csr<float, std::uint32_t>(c);
    enum_csr<double, std::uint32_t>(c);
    enum_cscr<double, std::uint64_t>(c);
    enum_cscr<float, std::uint32_t>(c);
    enum_cscr<double, std::uint32_t>(c);
    enum_csrsb<double, std::uint64_t, 2, false>(c);
    enum_csrsb<float, std::uint32_t, 3, false>(c);
    enum_csrsb<double, std::uint32_t, 3, false>(c);
    enum_csrsb<double, std::uint64_t, 2, true>(c);
    enum_csrsb<float, std::uint32_t, 2, true>(c);
  });
}
