// C01 (part 1): mat-vec products of the scalar sparse formats
//   SparseMatrixCSR (DenseVector and DenseVectorBlocked operands = csrsb kernel), SparseMatrixBWrappedCSR,
//   SparseMatrixCSCR
// against a dense long-double oracle, for ALL sparsity patterns of all small shapes; each pattern with four value alphabets on a
// fresh object and (exact alphabet) in every scenario: other calls first, sub-range views, on clones / moved / index-converted objects.
#include <c01_common.hpp>
#include <kernel/lafem/sparse_matrix_cscr.hpp>
#include <kernel/lafem/sparse_matrix_bwrappedcsr.hpp>

using namespace c01;

namespace
{
  struct Shape { int m, n; };

  std::vector<Shape> shapes(bool thorough, bool with_zero)
  {
    std::vector<Shape> v;
    if(with_zero) { for(int k = 0; k <= 3; ++k) { v.push_back({0, k}); if(k) v.push_back({k, 0}); } }
    for(int s = 2; s <= 6; ++s) for(int m = 1; m <= 3; ++m) { int n = s - m; if(n >= 1 && n <= 3) v.push_back({m, n}); }
    if(thorough) { v.push_back({1, 4}); v.push_back({4, 1}); v.push_back({2, 4}); v.push_back({4, 2}); v.push_back({3, 4}); v.push_back({4, 3}); v.push_back({4, 4}); }
    return v;
  }

  template<typename DT, typename IT>
  std::string tp() { return std::string(dtname<DT>()) + "," + itname<IT>(); }

  // ------------------------------------------------------------------------------------------ CSR, scalar vectors
  template<typename DT, typename IT>
  void enum_csr(verif::Ctx& c)
  {
    typedef SparseMatrixCSR<DT, IT> M; typedef DenseVector<DT, IT> V;
    typedef SparseMatrixCSR<DT, typename OtherIndex<IT>::type> MO;
    const auto ops = apply_cases(true);
    for(const Shape& sh : shapes(c.thorough, true))
    {
      const int bitsn = sh.m * sh.n;
      // 4x4 only with double/u64 + float/u32 (see bounds); more than 9 pattern bits: reduced variant list
      const bool big = (bitsn >= 16);
      if(big && !(std::is_same<DT, double>::value == (sizeof(IT) == 8))) continue;
      const auto vars = variants(bitsn <= 9);
      for(uint64_t bits = 0; bits < (uint64_t(1) << bitsn); ++bits)
      {
        const int nreps = (bits == 0 && sh.m > 0 && sh.n > 0) ? 2 : 1;
        for(int rep = 0; rep < nreps; ++rep)
          for(const Variant& var : vars)
          {
            if(big && var.alphabet != 0) continue;
            for(const ApplyCase& op0 : ops)
            {
              if(!c.want()) continue;
              set_extreme_exp<DT>();
              ApplyCase op = op0; op.alphabet = var.alphabet; op.scenario = var.scenario;
              const DenseRef D = dense_from_bits(sh.m, sh.n, bits, var.alphabet);
              c.desc([&]{ return "csr<" + tp<DT, IT>() + "> " + D.str() + (bits == 0 ? (rep ? " rep=allocated-empty" : " rep=entry-free") : "") + " " + op.str(); });
              M A0 = build_csr<DT, IT>(D, rep);
              const int dk = derive_kind(var.scenario);
              M A = dk ? derive_matrix<M, MO>(A0, dk) : A0.clone(CloneMode::Shallow);
              if(dk) c.count("derived_object_cases");
              const bool arrays = (A.used_elements() > 0 || (rep == 1 && dk != S_CONVERT));
              // tie the container to the oracle; in the base scenario only AFTER the operation (the apply is the first access)
              auto tie = [&]{
                bool same = (A.rows() == Index(sh.m) && A.columns() == Index(sh.n) && A.used_elements() == Index(D.nnz()));
                if(arrays && A._indices.size() > 1)
                  for(int i = 0; i < sh.m && same; ++i) for(int j = 0; j < sh.n; ++j) if(!(A(Index(i), Index(j)) == DT(D.at(i, j)))) same = false;
                c.check(same, "csr.operator() != generator", "container does not represent the generated matrix"); };
              if(var.scenario != S_BASE) tie();
              V r(Index(op.transposed ? sh.n : sh.m)), y(Index(op.transposed ? sh.n : sh.m)), x(Index(op.transposed ? sh.m : sh.n));
              const std::string kind = std::string("csr") + (bits == 0 ? (rep ? "[allocated-empty]" : "[entry-free]") : "");
              if(var.scenario == S_HIST || var.scenario == S_COMBO)
              {
                // the counterpart operation on the same object first
                V t1{Index(op.transposed ? sh.m : sh.n), DT(3)}, t2{Index(op.transposed ? sh.n : sh.m), DT(5)};
                if(op.transposed) A.apply(t1, t2); else A.apply_transposed(t1, t2);
              }
              check_apply(c, kind, D, op, r, y, x,
                [&](int mode, V& rr, const V& xx, const V& yy, DT al) {
                  if(op.transposed) { if(mode == 0) A.apply_transposed(rr, xx); else A.apply_transposed(rr, xx, yy, al); }
                  else { if(mode == 0) A.apply(rr, xx); else A.apply(rr, xx, yy, al); } },
                [&]{ verif::Hash h; hash_container(A0, h); hash_container(A, h); return h.get(); });
              tie();
              const bool early = (bits == 0) || (op.mode && fabsl(scalars[op.alpha].v) < 1e-10L);
              if(!early) c.nontrivial(verif::Hash().str("csr").str(tp<DT, IT>()).pod(sh).pod(bits).pod(op.transposed).pod(op.mode).pod(op.alpha).pod(var).get());
              c.excluded("same case with r aliasing x (XASSERT precondition)");
              c.outcome(std::string("csr/") + op.name() + (early ? " early-out" : ""));
              c.count("applies");
            }
          }
      }
    }
  }

  // ------------------------------------------------------------------------------------------ CSR x blocked vectors (csrsb), BWrappedCSR
  template<typename DT, typename IT, int BS, bool wrapped>
  void enum_csrsb(verif::Ctx& c)
  {
    typedef SparseMatrixCSR<DT, IT> M; typedef DenseVectorBlocked<DT, IT, BS> V;
    const auto ops = apply_cases(false);
    // blocked vectors have no sub-range views and the matrix is a plain CSR (derived objects: see enum_csr): alphabets + history + weak clone
    const std::vector<Variant> vars = {{0, S_BASE}, {1, S_BASE}, {2, S_BASE}, {3, S_BASE}, {0, S_HIST}, {0, S_CLONE_WEAK}};
    for(const Shape& sh : shapes(false, !wrapped))
    {
      const int bitsn = sh.m * sh.n;
      for(uint64_t bits = 0; bits < (uint64_t(1) << bitsn); ++bits)
        for(const Variant& var : vars)
          for(const ApplyCase& op0 : ops)
          {
            if(!c.want()) continue;
            set_extreme_exp<DT>();
            ApplyCase op = op0; op.alphabet = var.alphabet; op.scenario = var.scenario;
            const DenseRef D = dense_from_bits(sh.m, sh.n, bits, var.alphabet);
            // the operator the blocked apply represents: D (x) I_BS
            DenseRef E(sh.m * BS, sh.n * BS);
            for(int i = 0; i < sh.m; ++i) for(int j = 0; j < sh.n; ++j) if(D.has(i, j)) for(int b = 0; b < BS; ++b) E.set(i * BS + b, j * BS + b, D.at(i, j));
            const std::string kind = std::string(wrapped ? "bwrappedcsr" : "csr") + "<bs" + std::to_string(BS) + ">" + (bits == 0 ? "[entry-free]" : "");
            c.desc([&]{ return kind + "<" + tp<DT, IT>() + "> " + D.str() + " blocked vectors " + op.str(); });
            if constexpr(wrapped)
            {
              SparseMatrixBWrappedCSR<DT, IT, BS> A0(build_csr<DT, IT>(D, 0));
              SparseMatrixBWrappedCSR<DT, IT, BS> A = (var.scenario == S_CLONE_WEAK) ? A0.clone(CloneMode::Weak) : A0.clone(CloneMode::Shallow);
              V r = A.create_vector_l(), y = A.create_vector_l(), x = A.create_vector_r();
              check_apply(c, kind, E, op, r, y, x,
                [&](int mode, V& rr, const V& xx, const V& yy, DT al) { if(mode == 0) A.apply(rr, xx); else A.apply(rr, xx, yy, al); },
                [&]{ verif::Hash h; hash_container(A0, h); hash_container(A, h); return h.get(); });
            }
            else
            {
              M A0 = build_csr<DT, IT>(D, 0);
              M A = (var.scenario == S_CLONE_WEAK) ? A0.clone(CloneMode::Weak) : A0.clone(CloneMode::Shallow);
              V r{Index(sh.m)}, y{Index(sh.m)}, x{Index(sh.n)};
              if(var.scenario == S_HIST)
              {
                // scalar-vector calls on the same object first
                DenseVector<DT, IT> t1{Index(sh.m), DT(3)}, t2{Index(sh.n), DT(5)};
                A.apply(t1, t2); A.apply_transposed(t2, t1);
              }
              check_apply(c, kind, E, op, r, y, x,
                [&](int mode, V& rr, const V& xx, const V& yy, DT al) { if(mode == 0) A.apply(rr, xx); else A.apply(rr, xx, yy, al); },
                [&]{ verif::Hash h; hash_container(A0, h); hash_container(A, h); return h.get(); });
            }
            const bool early = (bits == 0) || (op.mode && fabsl(scalars[op.alpha].v) < 1e-10L);
            if(!early) c.nontrivial(verif::Hash().str(kind).str(tp<DT, IT>()).pod(sh).pod(bits).pod(op.mode).pod(op.alpha).pod(var).get());
            c.outcome(std::string(wrapped ? "bwrappedcsr/" : "csrsb/") + op.name() + (early ? " early-out" : ""));
            c.count("applies");
          }
    }
  }

  // ------------------------------------------------------------------------------------------ CSCR
  template<typename DT, typename IT>
  void enum_cscr(verif::Ctx& c)
  {
    typedef SparseMatrixCSCR<DT, IT> M; typedef DenseVector<DT, IT> V;
    typedef SparseMatrixCSCR<DT, typename OtherIndex<IT>::type> MO;
    const auto ops = apply_cases(true);
    for(const Shape& sh : shapes(c.thorough, true))
    {
      const int bitsn = sh.m * sh.n;
      if(bitsn >= 16) continue;
      const auto vars = variants(bitsn <= 9);
      for(uint64_t bits = 0; bits < (uint64_t(1) << bitsn); ++bits)
      {
        // rows with entries must be "used"; every superset of them is a legal used-row set
        unsigned need = 0; for(int i = 0; i < sh.m; ++i) for(int j = 0; j < sh.n; ++j) if((bits >> (i * sh.n + j)) & 1u) need |= 1u << i;
        for(unsigned used = 0; used < (1u << sh.m); ++used)
        {
          if((used & need) != need) continue;
          // bits == 0, used != 0: used rows without any entry, only constructible with the allocating constructor CSCR(m,n,nnz,used_rows)
          if(bits == 0 && used != 0 && (sh.m == 0 || sh.n == 0)) continue; // that constructor XASSERTs non-zero dimensions
          for(const Variant& var : vars)
            for(const ApplyCase& op0 : ops)
            {
              if(!c.want()) continue;
              set_extreme_exp<DT>();
              ApplyCase op = op0; op.alphabet = var.alphabet; op.scenario = var.scenario;
              const DenseRef D = dense_from_bits(sh.m, sh.n, bits, var.alphabet);
              c.desc([&]{ return "cscr<" + tp<DT, IT>() + "> " + D.str() + " used_rows_mask=" + std::to_string(used) + " " + op.str(); });
              M A0;
              const Index nur0 = [&]{ Index q = 0; for(int i = 0; i < sh.m; ++i) q += (used >> i) & 1u; return q; }();
              if(bits == 0 && used == 0) A0 = M(Index(sh.m), Index(sh.n));
              else if(bits == 0 || var.scenario == S_HIST)
              {
                // configuration through the allocating constructor + raw arrays (instead of the array constructor)
                A0 = M(Index(sh.m), Index(sh.n), Index(D.nnz()), nur0);
                Index k = 0, u = 0; A0.row_ptr()[0] = IT(0);
                for(int i = 0; i < sh.m; ++i)
                {
                  if(!((used >> i) & 1u)) continue;
                  for(int j = 0; j < sh.n; ++j) if(D.has(i, j)) { A0.val()[k] = DT(D.at(i, j)); A0.col_ind()[k] = IT(j); ++k; }
                  A0.row_numbers()[u] = IT(i); A0.row_ptr()[++u] = IT(k);
                }
                c.count("cscr_allocating_constructor_cases");
              }
              else
              {
                const Index nnz = Index(D.nnz()); Index nur = 0; for(int i = 0; i < sh.m; ++i) nur += (used >> i) & 1u;
                DenseVector<DT, IT> val(nnz); DenseVector<IT, IT> ci(nnz), rp(nur + 1), rn(nur);
                Index k = 0, u = 0; rp.elements()[0] = IT(0);
                for(int i = 0; i < sh.m; ++i)
                {
                  if(!((used >> i) & 1u)) continue;
                  for(int j = 0; j < sh.n; ++j) if(D.has(i, j)) { val.elements()[k] = DT(D.at(i, j)); ci.elements()[k] = IT(j); ++k; }
                  rn.elements()[u] = IT(i); rp.elements()[++u] = IT(k);
                }
                A0 = M(Index(sh.m), Index(sh.n), ci, val, rp, rn);
              }
              const int dk = derive_kind(var.scenario);
              M A = dk ? derive_matrix<M, MO>(A0, dk) : A0.clone(CloneMode::Shallow);
              if(dk) c.count("derived_object_cases");
              auto tie = [&]{
                bool same = (A.rows() == Index(sh.m) && A.columns() == Index(sh.n) && A.used_elements() == Index(D.nnz()));
                if(bits != 0 || used != 0) for(int i = 0; i < sh.m && same; ++i) for(int j = 0; j < sh.n; ++j) if(!(A(Index(i), Index(j)) == DT(D.at(i, j)))) same = false;
                c.check(same && A.used_rows() == nur0, "cscr.operator() != generator", "container does not represent the generated matrix"); };
              if(var.scenario != S_BASE) tie();
              V r(Index(op.transposed ? sh.n : sh.m)), y(Index(op.transposed ? sh.n : sh.m)), x(Index(op.transposed ? sh.m : sh.n));
              const std::string kind = std::string("cscr") + (bits == 0 ? (used ? "[used rows without entries]" : "[entry-free]") : (used != need ? "[empty used rows]" : ""));
              if(var.scenario == S_HIST || var.scenario == S_COMBO)
              {
                V t1{Index(op.transposed ? sh.m : sh.n), DT(3)}, t2{Index(op.transposed ? sh.n : sh.m), DT(5)};
                if(op.transposed) A.apply(t1, t2); else A.apply_transposed(t1, t2);
              }
              check_apply(c, kind, D, op, r, y, x,
                [&](int mode, V& rr, const V& xx, const V& yy, DT al) {
                  if(op.transposed) { if(mode == 0) A.apply_transposed(rr, xx); else A.apply_transposed(rr, xx, yy, al); }
                  else { if(mode == 0) A.apply(rr, xx); else A.apply(rr, xx, yy, al); } },
                [&]{ verif::Hash h; hash_container(A0, h); hash_container(A, h); return h.get(); });
              tie();
              const bool early = (bits == 0) || (op.mode && fabsl(scalars[op.alpha].v) < 1e-10L);
              if(!early) c.nontrivial(verif::Hash().str("cscr").str(tp<DT, IT>()).pod(sh).pod(bits).pod(used).pod(op.transposed).pod(op.mode).pod(op.alpha).pod(var).get());
              c.outcome(std::string("cscr/") + op.name() + (early ? " early-out" : ""));
              c.count("applies");
            }
        }
      }
    }
  }
}

int main(int argc, char** argv)
{
  FEAT::Runtime::ScopeGuard guard(argc, argv);
  verif::Spec spec; spec.property = "C01"; spec.harness = "c01_apply_csr"; spec.case_timeout_s = 120;
  spec.rule = "case = (container kind, data/index type pair, shape, one of ALL 2^(m*n) sparsity patterns, representation of the empty "
    "pattern / CSCR used-row superset, variant = value alphabet {exact, rounding, all-negative, extreme-magnitude} on a fresh object or (exact alphabet) scenario "
    "{other calls first, sub-range views, deep/shallow/weak clone, moved, index-type round trip, combination}, operation {apply, apply_transposed} x {r:=Ax, r:=y+aAx with r!=y, with r==y}, alpha); "
    "every operation is invoked a second time on the filled objects; non-trivial = pattern has entries and |alpha|>=eps (no early-out); hash over all of these";
  spec.bounds_quick = "CSR, CSCR: shapes {0..3}x{0..3} (0 only entry-free), all patterns (682 + empties), 12 variants, type pairs (double,u64),(float,u32),(double,u32); "
    "CSR with DenseVectorBlocked<2>,<3> and BWrappedCSR<2>: shapes {1..3}^2, 6 variants; alpha in {0,1,-1,1/2,2,0.3,1e-20,-1e-20,1e-300}";
  spec.bounds_thorough = "quick + shapes 1x4,4x1,2x4,4x2,3x4,4x3 (all patterns, CSR and CSCR, 5 variants: 4 alphabets + combination scenario) + CSR 4x4 (65536 patterns, exact alphabet, base + combination, (double,u64),(float,u32))";
  spec.assumptions = {
    "coverage audit: out of scope of C01 (other properties): conversions, layout/graph constructors, transpose, permute, set_line/get_length_of_line (C02), matrix algebra (C03), file I/O and checkpoints (C05), scatter/gather-axpy classes (C16), name()/bytes()/statistics, MKL/CUDA back ends", 
    "oracle: dense long double product written in the harness; operator()(i,j) of every generated container is compared with the generator (after the operation in the base scenario: the apply is the first access)",
    "exact / all-negative / extreme alphabets: position coded dyadic values (extreme: matrix * 2^-1030 (denormal), x * 2^+1030; float 2^-+130), result compared with ==; rounding alphabet / non-dyadic alpha: |err| <= 8(len+2) eps (|A||x| max(1,|alpha|) + |y|)",
    "result vector r is pre-filled with NaN (r!=y cases), so a kernel reading r is detected; sub-range views are surrounded by guard entries that must stay untouched",
    "derived objects: the source object and the derived object are hashed before/after (source unchanged)",
    "excluded (API precondition): r aliasing x; vectors of wrong length; zero dimensions other than the entry-free constructor; unsorted column indices / row numbers (the containers require sorted layouts)"};
  return verif::run(spec, argc, argv, [&](verif::Ctx& c) {
    enum_csr<double, std::uint64_t>(c);
    enum_csr<float, std::uint32_t>(c);
    enum_csr<double, std::uint32_t>(c);
    enum_cscr<double, std::uint64_t>(c);
    enum_cscr<float, std::uint32_t>(c);
    enum_cscr<double, std::uint32_t>(c);
    enum_csrsb<double, std::uint64_t, 2, false>(c);
    enum_csrsb<float, std::uint32_t, 3, false>(c);
    enum_csrsb<double, std::uint32_t, 3, false>(c);
    enum_csrsb<double, std::uint64_t, 2, true>(c);
    enum_csrsb<float, std::uint32_t, 2, true>(c);
  });
}
