// C18: prolongation is exact on the coarse space; truncation is its left inverse; restriction is its transpose;
// matrix-free prolongation = assembled matrix; LAFEM::Transfer applies exactly these matrices; permuted meshes give the
// same functions.
//
// Real code under test: Assembly::GridTransfer::assemble_prolongation(_direct) / assemble_truncation(_direct) /
// prolongate_vector(_direct), Geometry::Intern::CoarseFineCellMapping, Cubature::RefineFactory (child point order),
// mesh permutation lookup inside GridTransfer, LAFEM::Transfer, the serial step sequence of
// Control::Asm::asm_transfer_scalar (weights, scale_rows, shrink, transpose).
//
// Oracle (independent of GridTransfer, the child numbering and any 2-level ordering): purely geometric. For every fine
// cell the parent is the coarse cell that contains the fine barycentre (own Newton inversion of the coarse trafo); at
// every point of a (k+2)-lattice of the fine cell the fine FE function of P*e_j must equal the coarse basis function
// phi_j evaluated at the inversely mapped point, for EVERY coarse dof j (all columns of P, including those that must
// vanish). Both sides are polynomials of degree <= k on the fine cell, so equality on the lattice is equality of functions.
// Basis functions and dof mappings are evaluated with the FEAT space evaluators (trusted here, checked by C15).
#include <c18_common.hpp>

namespace
{

  // ------------------------------------------------------------------------------------------ the checks for one mesh pair and one element
  template<typename Mesh_, template<typename> class Element_>
  struct Checker
  {
    typedef typename Mesh_::ShapeType ShapeType;
    static constexpr int dim = ShapeType::dimension;
    typedef Trafo::Standard::Mapping<Mesh_> TrafoType;
    typedef Element_<TrafoType> SpaceType;
    typedef typename TrafoType::template Evaluator<ShapeType, DataType>::Type TrafoEval;
    typedef typename SpaceType::template Evaluator<TrafoEval>::Type SpaceEval;
    typedef typename SpaceType::DofMappingType DofMapping;
    static constexpr TrafoTags trafo_cfg = TrafoTags::img_point | TrafoTags::jac_mat | TrafoTags::jac_inv | TrafoTags::jac_det | TrafoTags::dom_point
      | SpaceEval::template ConfigTraits<SpaceTags::value>::trafo_config;
    typedef typename TrafoEval::template ConfigTraits<trafo_cfg>::EvalDataType TrafoData;
    typedef typename SpaceEval::template ConfigTraits<SpaceTags::value>::EvalDataType SpaceData;
    typedef typename TrafoEval::DomainPointType DomPoint;
    typedef typename TrafoEval::ImagePointType ImgPoint;

    /// own Newton inversion of the trafo on the prepared cell; returns the residual
    static double invert(TrafoEval& te, TrafoData& td, const ImgPoint& x, DomPoint& xi, double h)
    {
      for(int k = 0; k < dim; ++k) xi[k] = RefCell<ShapeType>::center();
      double res = 1e300;
      for(int it = 0; it < 40; ++it)
      {
        te(td, xi);
        ImgPoint r; res = 0.0;
        for(int k = 0; k < dim; ++k) { r[k] = x[k] - td.img_point[k]; res = std::max(res, std::fabs(r[k])); }
        res /= h; // relative to the cell diameter
        if(res < 1e-14) break;
        for(int a = 0; a < dim; ++a) { double s = 0.0; for(int b = 0; b < dim; ++b) s += td.jac_inv[a][b] * r[b]; xi[a] += s; }
        bool sane = true; for(int a = 0; a < dim; ++a) if(!(std::fabs(xi[a]) < 1e3)) sane = false;
        if(!sane) return 1e300;
      }
      return res;
    }

    static void run(verif::Ctx& c, Mesh_& mesh_c, Mesh_& mesh_f, int degree, const std::string& key, bool parallelogram_only_ok)
    {
      (void)parallelogram_only_ok;
      TrafoType trafo_c(mesh_c), trafo_f(mesh_f);
      SpaceType space_c(trafo_c), space_f(trafo_f);
      const Index nc = space_c.get_num_dofs(), nf = space_f.get_num_dofs();
      const Index ncell_c = mesh_c.get_num_entities(dim), ncell_f = mesh_f.get_num_entities(dim);
      const String cub_a = "auto-degree:" + stringify(2 * degree + 2);
      const String cub_b = (ShapeType::dimension >= 1 && std::is_same<ShapeType, Shape::Hypercube<dim>>::value) ? String("gauss-legendre:" + stringify(degree + 1)) : String("auto-degree:" + stringify(std::max(2 * degree, 1)));

      // ---- assemble with both cubature rules
      MatrixType prol, prol_b, trunc;
      Assembly::SymbolicAssembler::assemble_matrix_2lvl(prol, space_f, space_c);
      prol_b = prol.clone(LAFEM::CloneMode::Layout);
      trunc = prol.transpose();
      Assembly::GridTransfer::assemble_prolongation_direct(prol, space_f, space_c, cub_a);
      Assembly::GridTransfer::assemble_prolongation_direct(prol_b, space_f, space_c, cub_b);
      Assembly::GridTransfer::assemble_truncation_direct(trunc, space_f, space_c, cub_a);

      // the serial step sequence of Control::Asm::asm_transfer_scalar (weights, scale_rows, shrink, transpose)
      MatrixType prol_s = prol.clone(LAFEM::CloneMode::Layout);
      std::vector<double> wmat((size_t(nf)), 0.0); // weight vector of the matrix route
      {
        VectorType w = prol_s.create_vector_l();
        prol_s.format(); w.format();
        Assembly::GridTransfer::assemble_prolongation(prol_s, w, space_f, space_c, Cubature::DynamicFactory(cub_a));
        for(Index i = 0; i < nf; ++i) wmat[size_t(i)] = w(i);
        w.component_invert(w);
        prol_s.scale_rows(prol_s, w);
        prol_s.shrink(1E-3 * prol_s.max_abs_element());
      }
      MatrixType rest = prol.transpose();
      MatrixType rest_s = prol_s.transpose();

      // ---- re-invocation on existing objects and the remaining overloads
      {
        auto same_vals = [](const MatrixType& a, const MatrixType& b) {
          if(a.rows() != b.rows() || a.columns() != b.columns() || a.used_elements() != b.used_elements()) return false;
          for(Index k = 0; k < a.used_elements(); ++k) if(!(a.val()[k] == b.val()[k]) || a.col_ind()[k] != b.col_ind()[k]) return false;
          for(Index i = 0; i <= a.rows(); ++i) if(a.row_ptr()[i] != b.row_ptr()[i]) return false;
          return true; };
        // the direct routines format their target: a second call on the filled matrix and a call on a matrix full of
        // marker values (sharing its layout with the bystander `prol`) reproduce the result bitwise
        MatrixType again = prol.clone(LAFEM::CloneMode::Deep);
        Assembly::GridTransfer::assemble_prolongation_direct(again, space_f, space_c, cub_a);
        c.check(same_vals(again, prol), "assemble_prolongation_direct called again on the filled matrix gives a different matrix; " + key, "second call differs (old contents not discarded?)");
        MatrixType marked = prol.clone(LAFEM::CloneMode::Weak);
        marked.format(777.0);
        Assembly::GridTransfer::assemble_prolongation_direct(marked, space_f, space_c, Cubature::DynamicFactory(cub_a));
        c.check(same_vals(marked, prol), "assemble_prolongation_direct into a matrix holding marker values gives a different matrix; " + key, "marker values survive or the layout-sharing bystander changed");
        MatrixType tagain = trunc.clone(LAFEM::CloneMode::Weak);
        tagain.format(-555.0);
        Assembly::GridTransfer::assemble_truncation_direct(tagain, space_f, space_c, Cubature::DynamicFactory(cub_a));
        c.check(same_vals(tagain, trunc), "assemble_truncation_direct into a matrix holding marker values gives a different matrix; " + key, "marker values survive or the layout-sharing bystander changed");
        // weight-vector route of the truncation (as in asm_transfer_scalar), String-name overloads of both non-direct routines
        {
          MatrixType tw = trunc.clone(LAFEM::CloneMode::Layout);
          VectorType w = tw.create_vector_l();
          tw.format(); w.format();
          Assembly::GridTransfer::assemble_truncation(tw, w, space_f, space_c, cub_a);
          bool w_ok = true; for(Index j = 0; j < nc; ++j) if(!(w(j) >= 1.0) || w(j) != std::floor(w(j))) w_ok = false;
          c.check(w_ok, "assemble_truncation weight vector is not a positive cell count; " + key, "weight entry < 1 or not an integer");
          w.component_invert(w);
          tw.scale_rows(tw, w);
          c.check(same_vals(tw, trunc), "assemble_truncation + weights differs from assemble_truncation_direct; " + key, "weight-vector route and direct route give different truncation matrices");
          MatrixType pw2 = prol.clone(LAFEM::CloneMode::Layout);
          VectorType w2 = pw2.create_vector_l();
          pw2.format(); w2.format();
          Assembly::GridTransfer::assemble_prolongation(pw2, w2, space_f, space_c, cub_a);
          bool w2_ok = true; for(Index i = 0; i < nf; ++i) if(!(w2(i) == wmat[size_t(i)])) w2_ok = false;
          w2.component_invert(w2);
          pw2.scale_rows(pw2, w2);
          c.check(w2_ok && same_vals(pw2, prol), "assemble_prolongation (cubature name overload) + weights differs from assemble_prolongation_direct; " + key, "weight vector or matrix differ");
        }
        // transposition into an existing, differently filled matrix of the right shape (asm_transfer_scalar: loc_trunc.transpose(loc_prol))
        {
          MatrixType r2 = trunc.clone(LAFEM::CloneMode::Deep);
          r2.transpose(prol);
          c.check(same_vals(r2, rest), "transpose(prol) into an existing matrix differs from prol.transpose(); " + key, "old contents of the target influence the transpose");
        }
        c.count("reinvocations", 6);
      }

      const Csr P(prol), Pb(prol_b), Ps(prol_s), T(trunc), R(rest), Rs(rest_s);
      c.check(P.m == nf && P.n == nc && T.m == nc && T.n == nf && R.m == nc && R.n == nf, "matrix dimensions; " + key, "prolongation/truncation/restriction dimensions wrong");

      // ---- (a) exactness on the coarse space, geometrically
      TrafoEval te_c(trafo_c), te_f(trafo_f);
      SpaceEval se_c(space_c), se_f(space_f);
      DofMapping dm_c(space_c), dm_f(space_f);
      TrafoData td_c, td_f;
      SpaceData sd_c, sd_f;
      const std::vector<DomPoint> lat = RefCell<ShapeType>::template lattice<DomPoint>(degree + 1);
      double worst = 0.0, worst_b = 0.0, worst_s = 0.0;
      Index worst_cell = 0, worst_col = 0;
      uint64_t npts = 0;
      bool parents_ok = true;
      std::vector<int> children(size_t(ncell_c), 0);
      std::vector<int> colpos(size_t(nc), -1);
      // coarse cell barycentres and radii for a cheap pre-selection of parent candidates
      std::vector<ImgPoint> cbary((size_t(ncell_c))); std::vector<double> crad(size_t(ncell_c), 0.0);
      {
        const std::vector<DomPoint> corners = RefCell<ShapeType>::template lattice<DomPoint>(1);
        for(Index cc = 0; cc < ncell_c; ++cc)
        {
          te_c.prepare(cc);
          DomPoint xb; for(int k = 0; k < dim; ++k) xb[k] = RefCell<ShapeType>::center();
          te_c(td_c, xb); cbary[size_t(cc)] = td_c.img_point;
          for(const DomPoint& q : corners) { te_c(td_c, q); double r2 = 0.0; for(int k = 0; k < dim; ++k) { const double d = td_c.img_point[k] - cbary[size_t(cc)][k]; r2 += d * d; } crad[size_t(cc)] = std::max(crad[size_t(cc)], std::sqrt(r2)); }
          te_c.finish();
        }
      }
      for(Index fc = 0; fc < ncell_f; ++fc)
      {
        te_f.prepare(fc); se_f.prepare(te_f); dm_f.prepare(fc);
        const int nlf = se_f.get_num_local_dofs();
        DomPoint xb; for(int k = 0; k < dim; ++k) xb[k] = RefCell<ShapeType>::center();
        te_f(td_f, xb);
        ImgPoint bary = td_f.img_point;
        // parent by geometry
        Index parent = ~Index(0); int nparents = 0;
        for(Index cc = 0; cc < ncell_c; ++cc)
        {
          double d2 = 0.0; for(int k = 0; k < dim; ++k) { const double d = bary[k] - cbary[size_t(cc)][k]; d2 += d * d; }
          if(std::sqrt(d2) > 1.5 * crad[size_t(cc)] * (1.0 + 1e-12)) continue;
          te_c.prepare(cc);
          DomPoint xi;
          double res = invert(te_c, td_c, bary, xi, crad[size_t(cc)]);
          if(res < 1e-10 && RefCell<ShapeType>::inside(xi, 1e-6)) { parent = cc; ++nparents; }
          te_c.finish();
        }
        if(nparents != 1) { parents_ok = false; se_f.finish(); te_f.finish(); dm_f.finish(); continue; }
        ++children[size_t(parent)];
        te_c.prepare(parent); se_c.prepare(te_c); dm_c.prepare(parent);
        const int nlc = se_c.get_num_local_dofs();
        // columns to look at: everything stored in the rows of this cell (all three matrices), plus the parent's dofs
        std::vector<Index> cols;
        auto add_col = [&](Index J) { if(colpos[size_t(J)] < 0) { colpos[size_t(J)] = int(cols.size()); cols.push_back(J); } };
        for(int i = 0; i < nlf; ++i)
        {
          const Index gi = dm_f.get_index(i);
          for(Index k = P.rp[gi]; k < P.rp[gi + 1]; ++k) add_col(P.ci[k]);
          for(Index k = Pb.rp[gi]; k < Pb.rp[gi + 1]; ++k) add_col(Pb.ci[k]);
          for(Index k = Ps.rp[gi]; k < Ps.rp[gi + 1]; ++k) add_col(Ps.ci[k]);
        }
        for(int j = 0; j < nlc; ++j) add_col(dm_c.get_index(j));
        // local blocks
        const size_t ncol = cols.size();
        std::vector<double> B(size_t(nlf) * ncol, 0.0), Bb(B), Bs(B);
        for(int i = 0; i < nlf; ++i)
        {
          const Index gi = dm_f.get_index(i);
          for(Index k = P.rp[gi]; k < P.rp[gi + 1]; ++k) B[size_t(i) * ncol + size_t(colpos[size_t(P.ci[k])])] += P.va[k];
          for(Index k = Pb.rp[gi]; k < Pb.rp[gi + 1]; ++k) Bb[size_t(i) * ncol + size_t(colpos[size_t(Pb.ci[k])])] += Pb.va[k];
          for(Index k = Ps.rp[gi]; k < Ps.rp[gi + 1]; ++k) Bs[size_t(i) * ncol + size_t(colpos[size_t(Ps.ci[k])])] += Ps.va[k];
        }
        for(const DomPoint& p : lat)
        {
          te_f(td_f, p); se_f(sd_f, td_f);
          DomPoint xi;
          const double res = invert(te_c, td_c, td_f.img_point, xi, crad[size_t(parent)]);
          if(!(res < 1e-10)) { parents_ok = false; continue; }
          te_c(td_c, xi); se_c(sd_c, td_c);
          ++npts;
          for(size_t q = 0; q < ncol; ++q)
          {
            const Index J = cols[q];
            double lhs = 0.0, lhs_b = 0.0, lhs_s = 0.0, rhs = 0.0;
            for(int i = 0; i < nlf; ++i) { const double ph = sd_f.phi[i].value; lhs += B[size_t(i) * ncol + q] * ph; lhs_b += Bb[size_t(i) * ncol + q] * ph; lhs_s += Bs[size_t(i) * ncol + q] * ph; }
            for(int j = 0; j < nlc; ++j) if(dm_c.get_index(j) == J) rhs += sd_c.phi[j].value;
            const double e = std::fabs(lhs - rhs);
            if(e > worst) { worst = e; worst_cell = fc; worst_col = J; }
            worst_b = std::max(worst_b, std::fabs(lhs_b - rhs));
            worst_s = std::max(worst_s, std::fabs(lhs_s - rhs));
          }
        }
        for(Index J : cols) colpos[size_t(J)] = -1;
        dm_c.finish(); se_c.finish(); te_c.finish();
        dm_f.finish(); se_f.finish(); te_f.finish();
      }
      c.check(parents_ok, "geometric parent lookup (harness oracle); " + key, "a fine cell barycentre lies in no or several coarse cells, or an inverse mapping failed");
      {
        bool cnt_ok = true; const int expect = int(ncell_f / ncell_c);
        for(int n : children) if(n != expect) cnt_ok = false;
        c.check(cnt_ok && ncell_f % ncell_c == 0, "children per coarse cell; " + key, "fine cells are not distributed evenly over the coarse cells");
      }
      c.check(worst <= 2e-11, "prolongation not exact on the coarse space; " + key, [&]{ char b[200]; snprintf(b, sizeof b, "max |(P e_j)(x) - phi_j(x)| = %.3e (fine cell %u, coarse dof %u), cubature %s", worst, unsigned(worst_cell), unsigned(worst_col), cub_a.c_str()); return std::string(b); });
      c.check(worst_b <= 2e-11, "prolongation not exact on the coarse space (second cubature rule); " + key, [&]{ char b[200]; snprintf(b, sizeof b, "max error %.3e, cubature %s", worst_b, cub_b.c_str()); return std::string(b); });
      {
        // shrink(1e-3*max) is a documented lossy option: it may drop genuine small entries (tensor-product cubic elements in 3D
        // have entries (1/16)^3); exactness is demanded only where it dropped nothing but assembly noise
        double mx = 0.0; for(double x : P.va) mx = std::max(mx, std::fabs(x));
        double dropped = 0.0; bool shr = true;
        for(Index i = 0; i < nf; ++i) for(Index k = P.rp[i]; k < P.rp[i + 1]; ++k)
        {
          const double v = P.va[k], vs = Ps(i, P.ci[k]);
          const bool big = std::fabs(v) >= 1e-3 * mx;
          if(big && !(vs == v)) shr = false;
          if(!big && vs != 0.0 && !(vs == v)) shr = false;
          if(vs == 0.0) dropped = std::max(dropped, std::fabs(v));
        }
        if(Ps.nnz() > P.nnz()) shr = false;
        c.check(shr, "shrink changed an entry above its threshold; " + key, "asm_transfer step sequence: entry >= 1e-3*max lost or altered");
        if(dropped <= 1e-12)
          c.check(worst_s <= 2e-11, "prolongation not exact on the coarse space (asm_transfer step sequence with shrink); " + key, [&]{ char b[200]; snprintf(b, sizeof b, "max error %.3e", worst_s); return std::string(b); });
        else
        {
          c.excluded("shrink(1e-3*max) drops genuine prolongation entries (documented lossy option)");
          c.check(worst_s <= 64.0 * dropped, "shrunk prolongation error exceeds what the dropped entries explain; " + key, [&]{ char b[200]; snprintf(b, sizeof b, "max error %.3e, largest dropped entry %.3e", worst_s, dropped); return std::string(b); });
        }
      }
      c.count("lattice_points", npts);
      c.count("fine_cells", ncell_f);

      // ---- (b) truncation is a left inverse: T*P = I (sparse row products)
      {
        double w = 0.0; Index wi = 0, wj = 0;
        std::vector<double> acc(size_t(nc), 0.0);
        std::vector<Index> touched;
        for(Index i = 0; i < nc; ++i)
        {
          touched.clear();
          for(Index k = T.rp[i]; k < T.rp[i + 1]; ++k)
          {
            const Index r = T.ci[k]; const double t = T.va[k];
            for(Index q = P.rp[r]; q < P.rp[r + 1]; ++q) { if(acc[size_t(P.ci[q])] == 0.0) touched.push_back(P.ci[q]); acc[size_t(P.ci[q])] += t * P.va[q]; }
          }
          bool diag_seen = false;
          for(Index j : touched) { if(j == i) diag_seen = true; const double e = std::fabs(acc[size_t(j)] - (i == j ? 1.0 : 0.0)); if(e > w) { w = e; wi = i; wj = j; } }
          if(!diag_seen) { const double e = std::fabs(acc[size_t(i)] - 1.0); if(e > w) { w = e; wi = i; wj = i; } }
          for(Index j : touched) acc[size_t(j)] = 0.0;
          acc[size_t(i)] = 0.0;
        }
        c.check(w <= 2e-10, "truncation is not a left inverse of prolongation; " + key, [&]{ char b[160]; snprintf(b, sizeof b, "max |(T*P - I)_ij| = %.3e at (%u,%u)", w, unsigned(wi), unsigned(wj)); return std::string(b); });
      }

      // ---- (c) restriction = transpose, entrywise and bitwise
      {
        bool ok = (R.nnz() == P.nnz()) && (Rs.nnz() == Ps.nnz());
        for(Index i = 0; i < nf && ok; ++i)
        {
          for(Index k = P.rp[i]; k < P.rp[i + 1]; ++k) if(!R.stored(P.ci[k], i) || !(R(P.ci[k], i) == P.va[k])) { ok = false; break; }
          for(Index k = Ps.rp[i]; k < Ps.rp[i + 1] && ok; ++k) if(!Rs.stored(Ps.ci[k], i) || !(Rs(Ps.ci[k], i) == Ps.va[k])) { ok = false; break; }
        }
        c.check(ok, "restriction is not the transpose of the prolongation; " + key, "mat_rest differs from mat_prol^T (entry or number of stored entries)");
      }

      // ---- (d) matrix-free prolongation = matrix, (e) LAFEM::Transfer = the matrices
      {
        VectorType vc(nc), vf(nf), vf2(nf), vc2(nc), vc3(nc), dual(nf);
        std::vector<double> xc((size_t(nc)), 0.0), xd((size_t(nf)), 0.0);
        for(Index j = 0; j < nc; ++j) { xc[size_t(j)] = double(int((j * 5u + 3u) % 11u) - 5) / 4.0; vc(j, xc[size_t(j)]); }
        for(Index i = 0; i < nf; ++i) { xd[size_t(i)] = double(int((i * 7u + 1u) % 13u) - 6) / 8.0; dual(i, xd[size_t(i)]); }
        std::vector<double> y, ya;
        P.apply(y, ya, xc);
        vf.format();
        Assembly::GridTransfer::prolongate_vector_direct(vf, vc, space_f, space_c, cub_a);
        double w = 0.0; Index wi = 0;
        for(Index i = 0; i < nf; ++i) { const double e = std::fabs(vf(i) - y[size_t(i)]) / std::max(1.0, ya[size_t(i)]); if(!(e <= w)) { w = e; wi = i; } }
        c.check(w <= 1e-12, "matrix-free prolongate_vector differs from the assembled matrix; " + key, [&]{ char b[160]; snprintf(b, sizeof b, "dense vector: max relative difference %.3e at fine dof %u", w, unsigned(wi)); return std::string(b); });

        // ---- (d2) matrix-free prolongation for sparse inputs: the zero vector, coarse unit vectors e_j (all of them if the
        // pair is small enough, else an evenly spaced sub-family incl. first and last), vectors supported on the dofs of one
        // coarse cell; both entry points (with weight vector / direct). The result must be P*v, the weight vector must be the
        // one of the matrix route (bitwise: both count cells per fine dof), the input must stay untouched.
        {
          struct TV { std::string name; std::vector<std::pair<Index, double>> nz; };
          std::vector<TV> tvs;
          { TV z; z.name = "zero vector"; tvs.push_back(z); }
          {
            // value alphabet: all-negative, and dense vectors of extreme magnitude (a linear map: the result scales)
            TV t; t.name = "all-negative vector"; for(Index j = 0; j < nc; ++j) t.nz.push_back(std::make_pair(j, -double(1 + (j % 4)) / 4.0)); tvs.push_back(t);
            const int ex[4] = {400, -400, 900, -900};
            for(int q = 0; q < 4; ++q)
            {
              TV u; u.name = "dense vector * 2^" + std::to_string(ex[q]);
              for(Index j = 0; j < nc; ++j) u.nz.push_back(std::make_pair(j, std::ldexp(double(int((j * 5u + 3u) % 11u) - 5) / 4.0 + 0.125, ex[q])));
              tvs.push_back(u);
            }
          }
          // work of one call ~ #fine cells * (local dofs)^3 (local mass matrix inversion per child cell); unit 64 = one bilinear quad
          const uint64_t nl = uint64_t(SpaceEval::max_local_dofs);
          const uint64_t work = std::max<uint64_t>(1u, (uint64_t(ncell_f) * nl * nl * nl) / 64u);
          const uint64_t budget = c.thorough ? 16384u : 4096u;
          const Index nunit = Index(std::min<uint64_t>(uint64_t(nc), std::max<uint64_t>(6u, budget / work)));
          {
            Index lastj = ~Index(0);
            for(Index q = 0; q < nunit; ++q)
            {
              const Index j = (nunit <= 1) ? Index(0) : Index((uint64_t(q) * uint64_t(nc - 1)) / uint64_t(nunit - 1));
              if(j == lastj) continue;
              lastj = j;
              TV t; t.name = "unit vector e_" + std::to_string(j); t.nz.push_back(std::make_pair(j, 1.0)); tvs.push_back(t);
            }
            if(nunit < nc) c.count("unit_vector_subfamilies"); else c.count("all_unit_vectors_cases");
          }
          {
            // coarse-cell supported vectors: first, middle and last coarse cell (all cells in the thorough tier if few)
            DofMapping dmc(space_c);
            std::vector<Index> cells;
            if(c.thorough && ncell_c <= 8) for(Index cc = 0; cc < ncell_c; ++cc) cells.push_back(cc);
            else { cells.push_back(0); if(ncell_c > 2) cells.push_back(ncell_c / 2); if(ncell_c > 1) cells.push_back(ncell_c - 1); }
            for(Index cc : cells)
            {
              dmc.prepare(cc);
              TV t; t.name = "vector supported on coarse cell " + std::to_string(cc);
              std::set<Index> seen;
              for(int k = 0; k < dmc.get_num_local_dofs(); ++k) { const Index g = dmc.get_index(k); if(seen.insert(g).second) t.nz.push_back(std::make_pair(g, double(1 + (k % 3)) / 2.0 * ((k % 2) ? -1.0 : 1.0))); }
              dmc.finish();
              tvs.push_back(t);
            }
          }
          VectorType tc(nc), tf(nf), tw(nf), tfd(nf);
          std::vector<double> ex((size_t(nf)), 0.0), exa((size_t(nf)), 0.0);
          size_t nfail = 0;
          for(const TV& t : tvs)
          {
            tc.format();
            double vmag = 0.0;
            for(auto& e : t.nz) { tc(e.first, e.second); vmag = std::max(vmag, std::fabs(e.second)); }
            // expected P*v from the columns of P (= rows of R, which was compared bitwise with P^T above)
            std::fill(ex.begin(), ex.end(), 0.0); std::fill(exa.begin(), exa.end(), 0.0);
            for(auto& e : t.nz) for(Index k = R.rp[e.first]; k < R.rp[e.first + 1]; ++k) { ex[size_t(R.ci[k])] += R.va[k] * e.second; exa[size_t(R.ci[k])] += std::fabs(R.va[k] * e.second); }
            tf.format(); tw.format(); tfd.format(777.0);
            Assembly::GridTransfer::prolongate_vector(tf, tw, tc, space_f, space_c, cub_a);
            tfd.format();
            Assembly::GridTransfer::prolongate_vector_direct(tfd, tc, space_f, space_c, cub_a);
            bool w_ok = true, v_ok = true, d_ok = true, in_ok = true; Index bi = 0;
            for(Index i = 0; i < nf; ++i)
            {
              if(!(tw(i) == wmat[size_t(i)])) { if(w_ok) bi = i; w_ok = false; }
              const double scaled = tf(i) / wmat[size_t(i)];
              const double tolv = 1e-12 * std::max(vmag, exa[size_t(i)]); // relative to the magnitude of the input
              if(!(std::fabs(scaled - ex[size_t(i)]) <= tolv)) { if(v_ok && w_ok) bi = i; v_ok = false; }
              if(!(std::fabs(tfd(i) - ex[size_t(i)]) <= tolv)) { if(d_ok && v_ok && w_ok) bi = i; d_ok = false; }
            }
            { std::vector<double> want((size_t(nc)), 0.0); for(auto& e : t.nz) want[size_t(e.first)] = e.second; for(Index j = 0; j < nc; ++j) if(!(tc(j) == want[size_t(j)])) in_ok = false; }
            if(nfail < 3)
            {
              c.check(w_ok, "matrix-free prolongate_vector: weight vector differs from the matrix route; " + key, [&]{ char b[200]; snprintf(b, sizeof b, "%s: weight[%u] = %g, assemble_prolongation gives %g", t.name.c_str(), unsigned(bi), tw(bi), wmat[size_t(bi)]); return std::string(b); });
              c.check(v_ok, "matrix-free prolongate_vector (weighted) differs from P*v for a sparse vector; " + key, [&]{ char b[200]; snprintf(b, sizeof b, "%s: fine dof %u: %g/%g vs %g", t.name.c_str(), unsigned(bi), tf(bi), wmat[size_t(bi)], ex[size_t(bi)]); return std::string(b); });
              c.check(d_ok, "matrix-free prolongate_vector_direct differs from P*v for a sparse vector; " + key, [&]{ char b[200]; snprintf(b, sizeof b, "%s: fine dof %u: %g vs %g", t.name.c_str(), unsigned(bi), tfd(bi), ex[size_t(bi)]); return std::string(b); });
              c.check(in_ok, "matrix-free prolongate_vector modified its input; " + key, [&]{ return t.name; });
            }
            if(!(w_ok && v_ok && d_ok && in_ok)) ++nfail;
            c.count("matrix_free_sparse_vectors");
          }
        }

        LAFEM::Transfer<MatrixType> tr(prol.clone(), rest.clone(), trunc.clone());
        c.check(!tr.is_ghost(), "LAFEM::Transfer::is_ghost; " + key, "local transfer claims to be a ghost operator");
        tr.prol(vf2, vc); tr.rest(dual, vc2); tr.trunc(vf2, vc3);
        const double tol = 64.0 * 2.3e-16;
        double wp = 0.0, wr = 0.0, wt = 0.0;
        for(Index i = 0; i < nf; ++i) wp = std::max(wp, std::fabs(vf2(i) - y[size_t(i)]) / (ya[size_t(i)] + 1e-300));
        std::vector<double> z, za;
        P.apply_t(z, za, xd);
        for(Index j = 0; j < nc; ++j) wr = std::max(wr, std::fabs(vc2(j) - z[size_t(j)]) / (za[size_t(j)] + 1e-300));
        std::vector<double> xf((size_t(nf)), 0.0); for(Index i = 0; i < nf; ++i) xf[size_t(i)] = vf2(i);
        T.apply(z, za, xf);
        for(Index j = 0; j < nc; ++j) wt = std::max(wt, std::fabs(vc3(j) - z[size_t(j)]) / (za[size_t(j)] + 1e-300));
        c.check(wp <= tol, "LAFEM::Transfer::prol differs from P*v; " + key, [&]{ char b[100]; snprintf(b, sizeof b, "relative difference %.3e", wp); return std::string(b); });
        c.check(wr <= tol, "LAFEM::Transfer::rest differs from P^T*v; " + key, [&]{ char b[100]; snprintf(b, sizeof b, "relative difference %.3e", wr); return std::string(b); });
        c.check(wt <= tol, "LAFEM::Transfer::trunc differs from T*v; " + key, [&]{ char b[100]; snprintf(b, sizeof b, "relative difference %.3e", wt); return std::string(b); });
        // trunc(prol(v)) = v through the operator interface
        double wtp = 0.0; for(Index j = 0; j < nc; ++j) wtp = std::max(wtp, std::fabs(vc3(j) - vc(j)));
        c.check(wtp <= 1e-10, "LAFEM::Transfer trunc(prol(v)) != v; " + key, [&]{ char b[100]; snprintf(b, sizeof b, "max difference %.3e", wtp); return std::string(b); });
      }
      // ---- (f) every copying / conversion entry point of LAFEM::Transfer and of its serial Global::Transfer wrapper:
      // the derived object must carry and apply the same three matrices; the source must stay unchanged
      {
        typedef LAFEM::Transfer<MatrixType> TrD;
        typedef LAFEM::Transfer<LAFEM::SparseMatrixCSR<float, unsigned int>> TrF;
        typedef LAFEM::Transfer<LAFEM::SparseMatrixCSR<double, unsigned int>> TrDU;
        typedef LAFEM::Transfer<LAFEM::SparseMatrixCSR<float, Index>> TrFL;
        TrD src(prol.clone(), rest.clone(), trunc.clone());
        check_local(c, key, "source", src, P, R, T);
        // clone in every mode
        { TrD x = src.clone(LAFEM::CloneMode::Shallow); check_local(c, key, "clone(Shallow)", x, P, R, T); }
        { TrD x = src.clone(LAFEM::CloneMode::Weak); check_local(c, key, "clone(Weak)", x, P, R, T); }
        { TrD x = src.clone(LAFEM::CloneMode::Deep); check_local(c, key, "clone(Deep)", x, P, R, T); }
        { TrD x = src.clone(); check_local(c, key, "clone()", x, P, R, T); }
        { TrD x = src.clone(LAFEM::CloneMode::Layout); check_local(c, key, "clone(Layout)", x, P, R, T, 1); }
        { TrD x = src.clone(LAFEM::CloneMode::Allocate); check_local(c, key, "clone(Allocate)", x, P, R, T, 0); }
        // convert to other data/index types, chains, and back
        {
          TrF xf; xf.convert(src); check_local(c, key, "convert(float,u32)", xf, P, R, T);
          TrD back; back.convert(xf);
          {
            // the round trip carries the float-rounded entries exactly
            auto rnd = [](Csr a) { for(double& v : a.va) v = double(float(v)); return a; };
            const Csr Pf = rnd(P), Rf = rnd(R), Tf = rnd(T);
            const Csr bp(back.get_mat_prol()), br(back.get_mat_rest()), bt(back.get_mat_trunc());
            c.check(bp.rp == Pf.rp && bp.ci == Pf.ci && bp.va == Pf.va, "derived transfer object: prolongation matrix differs from the source; convert(float,u32)->convert(double,u64); " + key, "round trip does not carry float(P)");
            c.check(br.rp == Rf.rp && br.ci == Rf.ci && br.va == Rf.va, "derived transfer object: restriction matrix differs from the source; convert(float,u32)->convert(double,u64); " + key, "round trip does not carry float(P^T)");
            c.check(bt.rp == Tf.rp && bt.ci == Tf.ci && bt.va == Tf.va, "derived transfer object: truncation matrix differs from the source; convert(float,u32)->convert(double,u64); " + key, "round trip does not carry float(T)");
            // and applies them (float accuracy with respect to the exact matrices)
            typedef TrD::VectorType VT;
            VT vc(nc), vf(nf), tc(nc);
            for(Index j = 0; j < nc; ++j) vc(j, double(int((j * 5u + 3u) % 11u) - 5) / 4.0);
            back.prol(vf, vc); back.trunc(vf, tc);
            double w = 0.0; for(Index j = 0; j < nc; ++j) { const double e = std::fabs(tc(j) - vc(j)); if(!(e <= w)) w = e; }
            c.check(w <= 1e-4, "derived transfer object: trunc(prol(x)) != x; convert(float,u32)->convert(double,u64); " + key, [&]{ char b[100]; snprintf(b, sizeof b, "max difference %.3e", w); return std::string(b); });
            c.count("derived_transfer_objects");
          }
          TrDU xdu; xdu.convert(src); check_local(c, key, "convert(double,u32)", xdu, P, R, T);
          TrFL xfl; xfl.convert(xdu); check_local(c, key, "convert(double,u32)->convert(float,u64)", xfl, P, R, T);
          TrD same; same.convert(src); check_local(c, key, "convert(double,u64)", same, P, R, T);
          TrD back2; back2.convert(xdu); check_local(c, key, "convert(double,u32)->convert(double,u64)", back2, P, R, T);
          same.convert(same); check_local(c, key, "convert(self)", same, P, R, T);
        }
        // move construction / assignment
        {
          TrD a = src.clone(LAFEM::CloneMode::Deep);
          TrD b(std::move(a)); check_local(c, key, "move construction", b, P, R, T);
          TrD d; d = std::move(b); check_local(c, key, "move assignment", d, P, R, T);
          TrD e2(prol.clone(), rest.clone()); // two-matrix constructor: no truncation
          e2 = std::move(d); check_local(c, key, "move assignment over an existing object", e2, P, R, T);
          TrD& self = e2; e2 = std::move(self); check_local(c, key, "self move assignment", e2, P, R, T);
        }
        // serial Global::Transfer wrapper (no muxer, no gate)
        {
          typedef LAFEM::VectorMirror<double, Index> MirD;
          typedef LAFEM::VectorMirror<float, unsigned int> MirF;
          typedef Global::Transfer<TrD, MirD> GTD;
          typedef Global::Transfer<TrF, MirF> GTF;
          GTD g(nullptr, prol.clone(), rest.clone(), trunc.clone());
          check_global(c, key, "Global::Transfer", g, P, R, T);
          { GTD x = g.clone(LAFEM::CloneMode::Deep); check_global(c, key, "Global::Transfer::clone(Deep)", x, P, R, T); }
          { GTD x = g.clone(); check_global(c, key, "Global::Transfer::clone()", x, P, R, T); }
          { GTD x = g.clone(LAFEM::CloneMode::Shallow); check_global(c, key, "Global::Transfer::clone(Shallow)", x, P, R, T); }
          GTF gf; gf.convert(nullptr, g); check_global(c, key, "Global::Transfer::convert(float,u32)", gf, P, R, T);
          GTD gb; gb.convert(nullptr, g); check_global(c, key, "Global::Transfer::convert(double,u64)", gb, P, R, T);
          GTD gm(std::move(gb)); check_global(c, key, "Global::Transfer move construction", gm, P, R, T);
          GTD ga; ga = std::move(gm); check_global(c, key, "Global::Transfer move assignment", ga, P, R, T);
          check_global(c, key, "Global::Transfer (after deriving objects)", g, P, R, T);
        }
        // the source is unchanged
        check_local(c, key, "source (after deriving objects)", src, P, R, T);
        const Csr P2(prol), R2(rest), T2(trunc);
        c.check(P2.rp == P.rp && P2.ci == P.ci && P2.va == P.va && R2.va == R.va && R2.ci == R.ci && T2.va == T.va && T2.ci == T.ci, "assembled matrices changed by deriving transfer objects; " + key, "prol/rest/trunc matrix modified");
      }
      c.count("matrix_entries_checked", uint64_t(P.nnz() + Pb.nnz() + Ps.nnz() + T.nnz() + R.nnz()));
      c.outcome(worst < 1e-14 ? "err<1e-14" : worst < 1e-13 ? "err<1e-13" : worst < 1e-12 ? "err<1e-12" : worst <= 2e-11 ? "err<2e-11" : "inexact");
    }
  };

  // ------------------------------------------------------------------------------------------ enumeration for one mesh type
  struct ElemDesc { const char* name; int degree; bool needs_parallelogram; };

  template<typename Mesh_, template<typename> class Element_>
  void enumerate(verif::Ctx& c, const ElemDesc& E, bool hypercube)
  {
    typedef Sources<Mesh_> Src;
    const int ng = pair_group_size<Mesh_>();
    const int npairs = (Mesh_::shape_dim >= 2) ? 2 * ng - 1 : ng * ng; // (id,g), (g,id); 1D: all
    for(int src = 0; src < Src::count() + npairs; ++src)
    for(int dist = 0; dist < 4; ++dist) // 0 as built, 1 non-affine distortion, 2/3 coordinates * 2^-30 / 2^+30
    for(int ref = 0; ref < 3; ++ref)
    for(int ps = 0; ps < 8; ++ps)
    for(int pw = 0; pw < 3; ++pw) // which mesh is permuted: 0 coarse, 1 fine, 2 both
    {
      if(ps == 0 && pw > 0) continue;
      const bool is_pair = src >= Src::count();
      if(dist >= 2 && !(ps == 0 && ref == 0 && (!is_pair || c.thorough))) continue;
      int g1 = 0, g2 = 0;
      if(is_pair)
      {
        const int q = src - Src::count();
        if(Mesh_::shape_dim >= 2) { if(q < ng) g2 = q; else g1 = q - ng + 1; } else { g1 = q / ng; g2 = q % ng; }
      }
      const std::string sname = is_pair ? (std::string(Src::tag()) + "-pair(g" + std::to_string(g1) + ",g" + std::to_string(g2) + ")") : std::string(Src::name(src));
      // reduced products
      if(is_pair)
      {
        // orientation pairs: plain in the quick tier; refined / distorted / randomly permuted in the thorough tier
        const bool plain = (dist == 0 && ref == 0 && ps == 0);
        const bool extra = (ref < 2) && ((dist >= 2) || ((dist + ref <= 1) && (ps == 0 || (ps == 7 && pw == 2 && dist == 0))));
        const bool extra_quick = (Mesh_::shape_dim <= 2) || (E.degree <= 1);
        if(!(plain || (extra && (c.thorough || extra_quick)))) continue;
        if(Mesh_::shape_dim == 3 && E.degree >= 3 && !c.thorough && (g1 + g2) % 4 != 0) continue;
      }
      const bool multi = is_pair || (ref > 0) || sname.find("orient") == std::string::npos;
      if(ps > 0 && !multi) continue;                         // permuting a one-cell coarse mesh: only through the fine mesh ...
      if(!is_pair)
      {
        // third level pairs (RRM, RRRM): thorough tier, 1D/2D, unpermuted or randomly permuted
        if(ref == 2 && !(c.thorough && Mesh_::shape_dim <= 2 && dist == 0 && (ps == 0 || (ps == 7 && pw == 2)))) continue;
        if(Mesh_::shape_dim == 3 && E.degree >= 3 && (ref > 0 || ps > 0) && !(c.thorough && src < 3 && ps == 0)) continue; // cubic 3D elements: small pairs
        if(Mesh_::shape_dim == 3 && ref > 0 && src == 3 && E.degree >= 2 && !c.thorough) continue; // tetris/big meshes refined twice: thorough only
        if(dist == 1 && ps > 0 && !(ps == 7 && pw == 2)) continue;
      }
      if(!c.want()) continue;
      const std::string key = std::string(E.name) + " " + sname + (dist == 1 ? " distorted" : dist == 2 ? " scaled*2^-30" : dist == 3 ? " scaled*2^30" : "") + " ref" + std::to_string(ref) + " perm=" + PERM_NAMES[ps] + (ps ? (pw == 0 ? "(coarse)" : pw == 1 ? "(fine)" : "(both)") : "");
      c.desc([&]{ return key; });
      if(dist == 1 && hypercube && E.needs_parallelogram)
      {
        c.excluded("parametric discontinuous P_k on non-parallelogram hypercube cells is not nested");
        continue;
      }
      std::unique_ptr<Mesh_> m0 = is_pair ? pair_mesh<Mesh_>(g1, g2) : Src::make(src);
      if(dist == 1) distort(*m0);
      if(dist == 2) rescale(*m0, std::ldexp(1.0, -30));
      if(dist == 3) rescale(*m0, std::ldexp(1.0, 30));
      std::unique_ptr<Mesh_> mc;
      mc = std::move(m0);
      for(int r = 0; r < ref; ++r) { Geometry::StandardRefinery<Mesh_> rr(*mc); std::unique_ptr<Mesh_> nx(new Mesh_(rr)); mc = std::move(nx); }
      Geometry::StandardRefinery<Mesh_> rf(*mc);
      Mesh_ mf(rf);
      if(ps > 0)
      {
        if(pw == 0 || pw == 2) mc->create_permutation(PERMS[ps]);
        if(pw == 1 || pw == 2) mf.create_permutation(PERMS[ps]);
      }
      Checker<Mesh_, Element_>::run(c, *mc, mf, E.degree, key, true);
      c.nontrivial(verif::Hash().str(key).get());
    }
  }
} // namespace

int main(int argc, char** argv)
{
  Runtime::ScopeGuard guard(argc, argv);
  verif::Spec spec; spec.property = "C18"; spec.harness = "c18_transfer";
  spec.rule = "case = (element, coarse mesh source incl. all test_aux orientations, distortion, refinement depth of the pair, permutation strategy, which "
    "of the two meshes is permuted); per case all columns of P are checked on a (k+2)-lattice of every fine cell against the coarse basis "
    "functions at the geometrically inverse-mapped points; T*P=I, R=P^T bitwise, matrix-free = matrix, LAFEM::Transfer = matrices, and the same identities on every object derived from it (clone in all 5 modes, convert to (float,u32)/(double,u32)/(float,u64)/(double,u64) incl. chains and round trip, move construction/assignment, serial Global::Transfer wrapper with its clone/convert/move). Every "
    "executed case is non-trivial (>= 2 fine cells), hashed by its key";
  spec.bounds_quick = "1D/quad/tria/hexa/tetra meshes: single cells in all test_aux orientations, tetris/patch/big meshes, unit cubes, and two-cell meshes whose "
    "local vertex numberings run through the full symmetry group of the cell ((id,g) and (g,id); |G| = 2/8/6/48/24); level pairs (M,RM) and (RM,RRM) "
    "[3D cubic elements: first pair only; tetris-hexa/big-tetra second pair only for degree <= 1]; Lagrange1-3, Discontinuous P0/P1, Bernstein2 (hypercubes); "
    "8 permutation strategies x {coarse,fine,both} on multi-cell pairs; distorted (non-affine) vertex coordinates; orientation pairs also refined/distorted/"
    "randomly permuted (3D: degree <= 1); cubature auto-degree:(2k+2) and gauss-legendre:(k+1) resp. auto-degree:2k";
  spec.bounds_thorough = "as quick plus third level pairs (RRM,RRRM) in 1D/2D, all 3D second-level pairs and all orientation-pair variants for every element";
  spec.assumptions = {
    "FEAT space evaluators and dof mappings are used to evaluate basis functions (checked by C15); the trafo is inverted by an own Newton iteration",
    "meshes are permuted after refinement (the convention GridTransfer's 2-level lookup is written for)",
    "matrix-free prolongation is called for all coarse unit vectors where #coarse dofs * #fine cells * (local dofs)^3/64 <= 4096 (quick) / 16384 (thorough), else for an evenly spaced sub-family (>= 6, incl. first and last), plus zero, dense and coarse-cell supported vectors (first/middle/last coarse cell; all cells of meshes with <= 8 cells in the thorough tier)", "tolerances: exactness 2e-11 absolute on O(1) basis values (local mass matrix inversion), T*P=I 2e-10, matrix-free vs matrix 1e-12 relative, Transfer vs dense product 64 eps relative; transpose is compared bitwise",
    "Global::Transfer is exercised only serially (no muxer, no gate: clone/convert/move and prol/rest/trunc forwarding); muxed/ghost operation needs MPI (C13)", "LAFEM::Transfer applies no filters (none to check); clone(Layout) has undefined values and clone(Allocate) undefined values and index arrays by contract: only layout resp. sizes are compared",
    "mesh coordinates scaled by 2^-30 and 2^+30 (cell volumes down to 2^-90) are part of the enumeration; matrix-free prolongation inputs include all-negative and 2^+-400 / 2^+-900 scaled vectors, judged relative to the input magnitude", "non-nested spaces (Crouzeix-Raviart, Rannacher-Turek, P2-bubble, parametric discontinuous P1 on non-parallelograms) are excluded"};

  static const ElemDesc L1 = {"Lagrange1", 1, false}, L2 = {"Lagrange2", 2, false}, L3 = {"Lagrange3", 3, false},
    D0 = {"Discontinuous-P0", 0, false}, D1 = {"Discontinuous-P1", 1, true}, B2 = {"Bernstein2", 2, false};

  return verif::run(spec, argc, argv, [&](verif::Ctx& c) {
    // ---- case 0: the functions documented as "must not be called" abort
    if(c.want())
    {
      c.desc([&]{ return std::string("LAFEM::Transfer ghost-only functions abort"); });
      int s1 = c.run_forked([&]{ LAFEM::Transfer<MatrixType> t; VectorType v(Index(3), 0.0); t.rest_send(v); });
      int s2 = c.run_forked([&]{ LAFEM::Transfer<MatrixType> t; VectorType v(Index(3), 0.0); t.prol_recv(v); });
      c.check(s1 == SIGABRT && s2 == SIGABRT, "LAFEM::Transfer::rest_send/prol_recv must abort", "ghost-only function returned normally");
    }
    enumerate<Mesh1D, ElL1>(c, L1, true);
    enumerate<Mesh1D, ElL2>(c, L2, true);
    enumerate<Mesh1D, ElL3>(c, L3, true);
    enumerate<Mesh1D, ElD0>(c, D0, true);
    enumerate<Mesh1D, ElD1>(c, D1, true);
    enumerate<MeshQ, ElL1>(c, L1, true);
    enumerate<MeshQ, ElL2>(c, L2, true);
    enumerate<MeshQ, ElL3>(c, L3, true);
    enumerate<MeshQ, ElD0>(c, D0, true);
    enumerate<MeshQ, ElD1>(c, D1, true);
    enumerate<MeshQ, ElB2>(c, B2, true);
    enumerate<MeshT, ElL1>(c, L1, false);
    enumerate<MeshT, ElL2>(c, L2, false);
    enumerate<MeshT, ElL3>(c, L3, false);
    enumerate<MeshT, ElD0>(c, D0, false);
    enumerate<MeshT, ElD1>(c, D1, false);
    enumerate<MeshH, ElL1>(c, L1, true);
    enumerate<MeshH, ElL2>(c, L2, true);
    enumerate<MeshH, ElL3>(c, L3, true);
    enumerate<MeshH, ElD0>(c, D0, true);
    enumerate<MeshH, ElD1>(c, D1, true);
    enumerate<MeshH, ElB2>(c, B2, true);
    enumerate<MeshS, ElL1>(c, L1, false);
    enumerate<MeshS, ElL2>(c, L2, false);
    enumerate<MeshS, ElL3>(c, L3, false);
    enumerate<MeshS, ElD0>(c, D0, false);
    enumerate<MeshS, ElD1>(c, D1, false);
  });
}
