// c13_transfer -- C13 Tier 1 for the grid transfer of the global layer: Global::Transfer::prol / rest / trunc (and the ghost
// variants prol_recv / rest_send / trunc_send) over LAFEM::Transfer, with and without a coarse-level Global::Muxer, i.e.
//   layout 0: no muxer (nullptr)                      -- coarse and fine level live on the same partition
//   layout 1: a muxer object that is not a child      -- the same, through the other branch condition
//   layout 2: coarse level on ONE parent rank (first or last rank), all ranks are children: parent joins / splits through the
//             muxer, the other ranks are ghosts of the coarse level
// on P rank threads over the MPI model, all Waitany answer sequences, both send modes.
//
// Oracle (no FEAT global layer): base coarse mesh and its refinement carry spaces of their own; patch dofs of both levels are
// mapped to base dofs geometrically and cell-wise (cell = exact ordered vertex coordinates, local dof a <-> local dof a);
// the base prolongation P = sum over coarse cells K of exact dyadic contributions E_K(fine dof, coarse dof), the local
// (type-0) prolongation of a patch is the sum over its own cells, restriction = transpose, truncation an independent dyadic
// matrix of the transposed pattern. prol(c) must equal (P c) restricted, rest(f) = P^T f, trunc(f) = T f, bit for bit, for
// every arrival order. The sparsity patterns come from the real SymbolicAssembler::assemble_matrix_2lvl.
#include "c13_core.hpp"
#include <kernel/space/lagrange3/element.hpp>
#include <kernel/lafem/transfer.hpp>
#include <kernel/global/transfer.hpp>
#include <mpi_explore.hpp>
#include <explore.hpp>
#include <vsched.h>
#include <sched.h>

using namespace c13;

namespace
{
  enum { tsp_l1 = 0, tsp_l2, tsp_l3, tsp_cr, tsp_p0, tsp_count };
  const char* tsp_name(int s) { static const char* n[] = {"Lagrange1", "Lagrange2", "Lagrange3", "CroRavRanTur", "DiscontinuousP0"}; return n[s]; }
  template<typename Trafo_, int id_> struct TSpace;
  template<typename Trafo_> struct TSpace<Trafo_, tsp_l1> { typedef Space::Lagrange1::Element<Trafo_> Type; };
  template<typename Trafo_> struct TSpace<Trafo_, tsp_l2> { typedef Space::Lagrange2::Element<Trafo_> Type; };
  template<typename Trafo_> struct TSpace<Trafo_, tsp_l3> { typedef Space::Lagrange3::Element<Trafo_> Type; };
  template<typename Trafo_> struct TSpace<Trafo_, tsp_cr> { typedef Space::CroRavRanTur::Element<Trafo_> Type; };
  template<typename Trafo_> struct TSpace<Trafo_, tsp_p0> { typedef Space::Discontinuous::Element<Trafo_, Space::Discontinuous::Variant::StdPolyP<0>> Type; };

  inline double val_P(Index K, Index fi, Index cj) { return double(1 + (K % 2)) * 0.25 * double(1 + ((fi + 2 * cj) % 5)); }
  inline double val_T(Index K, Index cj, Index fi) { return double(1 + (K % 3)) * 0.5 * double(1 + ((2 * fi + cj) % 3)) - 1.0; }
  inline double val_c(Index j) { return double(int((j * 5) % 11) - 5) / 4.0; }
  inline double val_f(Index i) { return double(int((i * 3) % 13) - 6) / 2.0; }

  struct TCfg
  {
    vm::MeshSpec mesh; int P = 1; std::vector<int> assign; int space = 0; int layout = 0; int parent = 0;
    std::string str() const
    {
      std::string a; for(int x : assign) a += char('0' + x);
      return vm::spec_str(mesh) + " (+1 refinement) P=" + std::to_string(P) + " cell->rank=" + a + " space=" + tsp_name(space) + " layout=" +
        (layout == 0 ? "no-muxer" : layout == 1 ? "muxer-not-child" : "coarse-level-on-rank-" + std::to_string(parent));
    }
  };

  typedef LAFEM::DenseVector<double, Index> Vec;
  typedef LAFEM::SparseMatrixCSR<double, Index> Mat;
  typedef LAFEM::Transfer<Mat> LTransfer;
  typedef Global::Gate<Vec, Mirror> GateT;
  typedef Global::Vector<Vec, Mirror> GVec;
  typedef Global::Muxer<Vec, Mirror> MuxerT;
  typedef Global::Transfer<LTransfer, Mirror> GTransfer;

  template<typename Mesh_, int sp_>
  struct TWorld
  {
    typedef Geometry::RootMeshNode<Mesh_> NodeType;
    typedef Trafo::Standard::Mapping<Mesh_> TrafoType;
    typedef typename TSpace<TrafoType, sp_>::Type SpaceType;
    static constexpr int dim = Mesh_::shape_dim;
    static constexpr int nchild = (dim == 3 ? 8 : 4);

    struct Lvl
    {
      std::unique_ptr<NodeType> node; std::unique_ptr<TrafoType> trafo; std::unique_ptr<SpaceType> space;
      Index nd = 0; std::vector<Index> p2b, cell2base; std::vector<int> nb; std::vector<Mirror> mir;
      void make_space() { trafo.reset(new TrafoType(*node->get_mesh())); space.reset(new SpaceType(*trafo)); nd = space->get_num_dofs(); }
    };
    struct Rank { Lvl c, f; Mat prol, rest, trunc; };

    TCfg cfg; Lvl bc, bf; Index Nc = 0, Nf = 0;
    std::vector<double> Pb, Tb;           // dense Nf x Nc, Nc x Nf
    std::vector<std::unique_ptr<Rank>> ranks;
    std::string error;

    /// ordered exact vertex coordinates of a cell
    static std::vector<std::array<vm::i64, 3>> ordered(const vm::PMesh& M, Index e) { std::vector<std::array<vm::i64, 3>> k; for(int j = 0; j < M.cnt(dim, 0); ++j) k.push_back(M.vtx[size_t(M.tup(dim, 0, e)[j])]); return k; }

    bool map_level(Lvl& L, const Lvl& B, const vm::PMesh& BM, const std::map<GKey, Index>& bcells, int qbits)
    {
      vm::PMesh PM; std::string err;
      if(!vm::extract_mesh(PM, *L.node->get_mesh(), qbits, &err)) { error = "patch mesh not on the lattice: " + err; return false; }
      L.p2b.assign(size_t(L.nd), ~Index(0));
      const Index nc = L.node->get_mesh()->get_num_elements();
      L.cell2base.assign(size_t(nc), 0);
      typename SpaceType::DofMappingType dmp(*L.space), dmb(*B.space);
      for(Index e = 0; e < nc; ++e)
      {
        auto it = bcells.find(gkey(PM, dim, e));
        if(it == bcells.end()) { error = "patch cell not found in the base mesh"; return false; }
        if(ordered(PM, e) != ordered(BM, it->second)) { error = "patch cell has another local vertex order than its base cell"; return false; }
        L.cell2base[size_t(e)] = it->second;
        dmp.prepare(e); dmb.prepare(it->second);
        for(int a = 0; a < dmp.get_num_local_dofs(); ++a)
        {
          Index& t = L.p2b[size_t(dmp.get_index(a))];
          if(t != ~Index(0) && t != dmb.get_index(a)) { error = "cell-wise patch->base dof identification is inconsistent (dof orientation differs between patch and base)"; return false; }
          t = dmb.get_index(a);
        }
        dmp.finish(); dmb.finish();
      }
      for(Index j = 0; j < L.nd; ++j) if(L.p2b[size_t(j)] == ~Index(0)) { error = "patch dof not reached by any cell"; return false; }
      for(const auto& h : L.node->get_halo_map())
      {
        Mirror m; Assembly::MirrorAssembler::assemble_mirror(m, *L.space, *h.second);
        if(m.empty()) continue;
        L.nb.push_back(h.first); L.mir.push_back(std::move(m));
      }
      return true;
    }

    /// calls fn(coarse cell, set of fine dofs in its closure, coarse dofs)
    template<typename Fn_>
    static void for_cells(const SpaceType& fs, const SpaceType& cs, Fn_ fn)
    {
      typename SpaceType::DofMappingType dmf(fs), dmc(cs);
      const Index ncc = cs.get_mesh().get_num_elements();
      for(Index c = 0; c < ncc; ++c)
      {
        std::vector<Index> J; dmc.prepare(c); for(int a = 0; a < dmc.get_num_local_dofs(); ++a) J.push_back(dmc.get_index(a)); dmc.finish();
        std::set<Index> I;
        for(int k = 0; k < nchild; ++k) { dmf.prepare(c * Index(nchild) + Index(k)); for(int a = 0; a < dmf.get_num_local_dofs(); ++a) I.insert(dmf.get_index(a)); dmf.finish(); }
        fn(c, I, J);
      }
    }
    static void add(Mat& M, Index i, Index j, double v)
    {
      const Index* rp = M.row_ptr(); const Index* ci = M.col_ind();
      Index pos = rp[i]; while(pos < rp[i + 1] && ci[pos] != j) ++pos;
      if(pos >= rp[i + 1]) XABORTM("c13_transfer: the 2-level symbolic pattern lacks a parent-child coupling");
      M.val()[pos] += v;
    }

    bool build(const TCfg& cf)
    {
      cfg = cf;
      const int P = cfg.P, qbits = 4;
      bc.node = NodeType::make_unique(vm::build_mesh<Mesh_>(cfg.mesh, true));
      bf.node = bc.node->refine_unique(Geometry::AdaptMode::none);
      bc.make_space(); bf.make_space();
      Nc = bc.nd; Nf = bf.nd;
      if(bf.node->get_mesh()->get_num_elements() != Index(nchild) * bc.node->get_mesh()->get_num_elements()) { error = "unexpected number of child cells"; return false; }
      vm::PMesh BMc, BMf; std::string err;
      if(!vm::extract_mesh(BMc, *bc.node->get_mesh(), qbits, &err) || !vm::extract_mesh(BMf, *bf.node->get_mesh(), qbits, &err)) { error = "base mesh not on the lattice: " + err; return false; }
      std::map<GKey, Index> cellsc, cellsf;
      for(Index e = 0; e < BMc.n[dim]; ++e) cellsc.emplace(gkey(BMc, dim, e), e);
      for(Index e = 0; e < BMf.n[dim]; ++e) cellsf.emplace(gkey(BMf, dim, e), e);
      Pb.assign(size_t(Nf) * size_t(Nc), 0.0); Tb.assign(size_t(Nc) * size_t(Nf), 0.0);
      for_cells(*bf.space, *bc.space, [&](Index K, const std::set<Index>& I, const std::vector<Index>& J)
      {
        for(Index i : I) for(Index j : J) { Pb[size_t(i) * size_t(Nc) + size_t(j)] += val_P(K, i, j); Tb[size_t(j) * size_t(Nf) + size_t(i)] += val_T(K, j, i); }
      });
      const Adjacency::Graph graph = make_graph(cfg.assign, P);
      for(int r = 0; r < P; ++r)
      {
        std::unique_ptr<Rank> R(new Rank());
        std::unique_ptr<NodeType> mybase = NodeType::make_unique(vm::build_mesh<Mesh_>(cfg.mesh, true));
        std::vector<int> comm;
        R->c.node = mybase->extract_patch(comm, graph, r);
        R->f.node = R->c.node->refine_unique(Geometry::AdaptMode::none);
        R->c.make_space(); R->f.make_space();
        if(!map_level(R->c, bc, BMc, cellsc, qbits) || !map_level(R->f, bf, BMf, cellsf, qbits)) return false;
        Assembly::SymbolicAssembler::assemble_matrix_2lvl(R->prol, *R->f.space, *R->c.space);
        R->prol.format(0.0);
        R->rest = R->prol.transpose();
        R->trunc = R->rest.clone(LAFEM::CloneMode::Deep);
        R->trunc.format(0.0);
        Rank& Q = *R;
        for_cells(*R->f.space, *R->c.space, [&](Index c, const std::set<Index>& I, const std::vector<Index>& J)
        {
          const Index K = Q.c.cell2base[size_t(c)];
          for(Index i : I) for(Index j : J)
          {
            add(Q.prol, i, j, val_P(K, Q.f.p2b[size_t(i)], Q.c.p2b[size_t(j)]));
            add(Q.trunc, j, i, val_T(K, Q.c.p2b[size_t(j)], Q.f.p2b[size_t(i)]));
          }
        });
        R->rest = R->prol.transpose();
        ranks.push_back(std::move(R));
      }
      return true;
    }
  };

  struct TOut { std::vector<double> v; std::string note; };
  enum { top_prol = 0, top_rest, top_trunc, top_count };
  const char* top_name(int o) { static const char* n[] = {"prol", "rest", "trunc"}; return n[o]; }

  template<typename W_>
  void rank_body(const W_& w, int op, int rank, TOut& out)
  {
    const auto& R = *w.ranks[size_t(rank)];
    const int P = w.cfg.P, layout = w.cfg.layout, pr = w.cfg.parent;
    Dist::Comm comm = Dist::Comm::world();
    Dist::Comm self = Dist::Comm::self();
    GateT gf(comm), gc(comm), gparent(self);
    for(size_t i = 0; i < R.f.nb.size(); ++i) gf.push(R.f.nb[i], R.f.mir[i].clone(LAFEM::CloneMode::Shallow));
    gf.compile(Vec(R.f.nd));
    for(size_t i = 0; i < R.c.nb.size(); ++i) gc.push(R.c.nb[i], R.c.mir[i].clone(LAFEM::CloneMode::Shallow));
    gc.compile(Vec(R.c.nd));
    gparent.compile(Vec(w.Nc));

    MuxerT mux;
    if(layout == 2)
    {
      mux.set_parent(&comm, pr, Mirror::make_identity(R.c.nd));
      if(rank == pr) for(int q = 0; q < P; ++q) { const auto& Q = *w.ranks[size_t(q)]; Mirror m(w.Nc, Q.c.nd); for(Index j = 0; j < Q.c.nd; ++j) m.indices()[j] = Q.c.p2b[size_t(j)]; mux.push_child(std::move(m)); }
      mux.compile(Vec(R.c.nd));
    }
    GTransfer T0(layout == 0 ? nullptr : &mux, R.prol.clone(LAFEM::CloneMode::Shallow), R.rest.clone(LAFEM::CloneMode::Shallow), R.trunc.clone(LAFEM::CloneMode::Shallow));
    T0.compile();
    // derived objects: the operations run on a clone (rest) resp. a move-constructed / move-assigned object (trunc)
    GTransfer T1 = T0.clone(LAFEM::CloneMode::Weak);
    GTransfer T2(std::move(T1));
    GTransfer T3; T3 = std::move(T2);
    T1 = T0.clone(LAFEM::CloneMode::Deep);
    const GTransfer& T = (op == top_prol) ? T0 : (op == top_rest) ? T1 : T3;
    if(T.get_mat_prol().rows() != R.f.nd || T.get_mat_rest().rows() != R.c.nd || T.get_mat_trunc().columns() != R.f.nd || T.bytes() == 0u) out.note += "transfer accessors report wrong shapes; ";
    const bool ghost = (layout == 2 && rank != pr);
    if(T.is_ghost() != ghost) out.note += "is_ghost() is wrong; ";

    auto fine_vec = [&](auto fn) { Vec v(R.f.nd); for(Index i = 0; i < R.f.nd; ++i) v(i, fn(R.f.p2b[size_t(i)])); return v; };
    const bool coarse_is_parent = (layout == 2 && rank == pr);
    if(op == top_prol)
    {
      GVec vf(&gf, Vec(R.f.nd)); vf.format(-77.0);
      if(ghost) T.prol_recv(vf);
      else
      {
        GVec vc(coarse_is_parent ? &gparent : &gc, Vec(coarse_is_parent ? w.Nc : R.c.nd));
        for(Index j = 0; j < vc.local().size(); ++j) vc.local()(j, val_c(coarse_is_parent ? j : R.c.p2b[size_t(j)]));
        T.prol(vf, vc);
      }
      out.v.assign(vf.local().elements(), vf.local().elements() + R.f.nd);
    }
    else
    {
      GVec vf(&gf, fine_vec([](Index b) { return val_f(b); }));
      if(ghost) { if(op == top_rest) T.rest_send(vf); else T.trunc_send(vf); }
      else
      {
        GVec vc(coarse_is_parent ? &gparent : &gc, Vec(coarse_is_parent ? w.Nc : R.c.nd)); vc.format(-77.0);
        if(op == top_rest) T.rest(vf, vc); else T.trunc(vf, vc);
        out.v.assign(vc.local().elements(), vc.local().elements() + vc.local().size());
      }
      for(Index i = 0; i < R.f.nd; ++i) if(vf.local()(i) != val_f(R.f.p2b[size_t(i)])) { out.note += "fine operand modified; "; break; }
    }
  }

  template<typename W_>
  std::string judge(const W_& w, int op, const std::vector<TOut>& outs)
  {
    std::ostringstream o; o.precision(17);
    const int P = w.cfg.P, layout = w.cfg.layout, pr = w.cfg.parent;
    for(int r = 0; r < P; ++r)
    {
      const auto& R = *w.ranks[size_t(r)];
      if(!outs[size_t(r)].note.empty()) { o << "rank " << r << ": " << outs[size_t(r)].note; return o.str(); }
      const bool ghost = (layout == 2 && r != pr), parent = (layout == 2 && r == pr);
      if(op == top_prol)
      {
        if(outs[size_t(r)].v.size() != size_t(R.f.nd)) { o << "prol: rank " << r << " delivered no vector"; return o.str(); }
        for(Index i = 0; i < R.f.nd; ++i)
        {
          const Index b = R.f.p2b[size_t(i)]; double want = 0; for(Index j = 0; j < w.Nc; ++j) want += w.Pb[size_t(b) * size_t(w.Nc) + size_t(j)] * val_c(j);
          if(outs[size_t(r)].v[size_t(i)] != want) { o << "prol: rank " << r << " fine dof " << i << " (base " << b << ") = " << outs[size_t(r)].v[size_t(i)] << ", expected " << want; return o.str(); }
        }
      }
      else
      {
        if(ghost) { if(!outs[size_t(r)].v.empty()) { o << "ghost delivered a coarse vector"; return o.str(); } continue; }
        const Index n = parent ? w.Nc : R.c.nd;
        if(outs[size_t(r)].v.size() != size_t(n)) { o << top_name(op) << ": rank " << r << " delivered no vector"; return o.str(); }
        for(Index j = 0; j < n; ++j)
        {
          const Index b = parent ? j : R.c.p2b[size_t(j)]; double want = 0;
          for(Index i = 0; i < w.Nf; ++i) want += (op == top_rest ? w.Pb[size_t(i) * size_t(w.Nc) + size_t(b)] : w.Tb[size_t(b) * size_t(w.Nf) + size_t(i)]) * val_f(i);
          if(outs[size_t(r)].v[size_t(j)] != want) { o << top_name(op) << ": rank " << r << " coarse dof " << j << " (base " << b << ") = " << outs[size_t(r)].v[size_t(j)] << ", expected " << want; return o.str(); }
        }
      }
    }
    return std::string();
  }

  struct DeadCtx { verif::Ctx* c = nullptr; std::string pre; } g_dead;
  void deadlock_cb(void*)
  {
    std::vector<int> sch; for(auto& x : vsched::decisions()) sch.push_back(x.chosen);
    const std::string s = g_dead.pre + vsched::schedule_to_string(sch);
    g_dead.c->fail("deadlock Global::Transfer", std::string("deadlock: no rank can make progress: ") + vsched::blocked_graph(), s);
    g_dead.c->capped("deadlock-abort"); g_dead.c->write_results(); fflush(stdout); _exit(0);
  }

  template<typename Mesh_, int sp_>
  void run_case_t(verif::Ctx& c, const TCfg& cfg)
  {
    TWorld<Mesh_, sp_> w;
    if(!w.build(cfg)) { c.fail(std::string("harness: world construction ") + tsp_name(cfg.space), w.error); return; }
    const int P = cfg.P;
    auto execute = [&](int mode, int op, const std::vector<int>& prefix, std::vector<TOut>& outs) -> std::string
    {
      c.heartbeat();
      outs.assign(static_cast<size_t>(P), TOut());
      minimpi::set_mode(mode == 0 ? minimpi::eager : minimpi::rendezvous);
      vsched::reset(prefix, false);
      minimpi::run(P, [&](int rank) { rank_body(w, op, rank, outs[size_t(rank)]); });
      if(vsched::diverged()) return "MACHINERY: schedule prefix diverged";
      const std::string left = minimpi::leftovers(false);
      if(!left.empty()) return "MPI objects left behind: " + left;
      return judge(w, op, outs);
    };
    if(c.replaying && !c.extra.empty())
    {
      size_t a = c.extra.find(':'), b = c.extra.find(':', a + 1);
      std::vector<TOut> outs;
      const std::string f = execute(atoi(c.extra.substr(0, a).c_str()), atoi(c.extra.substr(a + 1, b - a - 1).c_str()), vsched::schedule_from_string(c.extra.substr(b + 1)), outs);
      if(!f.empty()) c.fail(std::string("Global::Transfer ") + tsp_name(cfg.space), f, c.extra);
      return;
    }
    vsched::set_deadlock_cb(deadlock_cb, nullptr);
    bool stop = false;
    for(int mode = 0; mode < 2 && !stop; ++mode)
    for(int op = 0; op < top_count && !stop; ++op)
    {
      const std::string pre = std::to_string(mode) + ":" + std::to_string(op) + ":";
      g_dead.c = &c; g_dead.pre = pre;
      minimpi::Explorer ex; ex.max_executions = 20000;
      std::set<uint64_t> digests; std::string failure;
      const bool ok = ex.explore([&](const std::vector<int>& prefix) -> bool
      {
        std::vector<TOut> outs;
        failure = execute(mode, op, prefix, outs);
        if(!failure.empty()) return false;
        verif::Hash h; for(auto& o : outs) { uint64_t n = o.v.size(); h.pod(n); for(double v : o.v) { if(v == 0.0) v = 0.0; h.pod(v); } }
        digests.insert(h.get());
        return true;
      });
      c.count("executions", ex.stats.executions); c.count("traces_validated_against_impl", ex.stats.executions);
      c.count("states", ex.stats.states); c.count("transitions", ex.stats.transitions);
      c.maxi("executions_per_operation", ex.stats.executions);
      if(ex.stats.capped) c.capped("executions");
      if(!ok)
      {
        const std::string s = pre + vsched::schedule_to_string(ex.failing);
        c.fail(failure.compare(0, 9, "MACHINERY") == 0 ? std::string("machinery") : std::string("Global::Transfer ") + top_name(op) + " " + tsp_name(cfg.space) + (cfg.layout == 2 ? " via muxer" : ""), failure + (mode ? " [rendezvous]" : " [eager]"), s);
        stop = true; break;
      }
      if(digests.size() != 1) c.fail(std::string("order dependence: Global::Transfer ") + top_name(op), std::to_string(digests.size()) + " digests on exact data", pre);
      c.outcome(std::string(top_name(op)) + (cfg.layout == 2 ? " via muxer" : " same partition"));
    }
    if(P >= 2) c.nontrivial(verif::Hash().str(cfg.str()).get());
  }

  template<typename Mesh_>
  void run_case(verif::Ctx& c, const TCfg& cfg)
  {
    switch(cfg.space)
    {
    case tsp_l1: run_case_t<Mesh_, tsp_l1>(c, cfg); break;
    case tsp_l2: run_case_t<Mesh_, tsp_l2>(c, cfg); break;
    case tsp_l3: run_case_t<Mesh_, tsp_l3>(c, cfg); break;
    case tsp_cr: run_case_t<Mesh_, tsp_cr>(c, cfg); break;
    default: run_case_t<Mesh_, tsp_p0>(c, cfg); break;
    }
  }
}

int main(int argc, char** argv)
{
  Runtime::ScopeGuard guard(argc, argv);
  verif::Spec spec;
  spec.property = "C13";
  spec.harness = "c13_transfer";
  spec.rule = "case = (base mesh refined once, ranks P, surjective coarse cell->rank assignment, space in {Lagrange1,2,3, CroRavRanTur, DiscontinuousP0}, "
    "layout: no muxer / muxer that is not a child / coarse level on one parent rank (first or last) with all other ranks as ghosts); per case both send modes x "
    "{prol, rest, trunc} of Global::Transfer over LAFEM::Transfer (on the original, a cloned and a moved object), all Waitany answer sequences, bit-exact base-level oracle. "
    "Non-trivial = P >= 2, hashed by the case description.";
  spec.bounds_quick = "quads 2x2: P<=3 all assignments + the 4-rank assignment; triangle fan of 4: P<=3 all + the 4-rank assignment; 5 spaces; 4 layouts";
  spec.bounds_thorough = "as quick plus quads 3x2 P<=3 all assignments and all 4-rank assignments of 2x2";
  spec.assumptions = {"MPI behaves as modelled by engine/minimpi", "the child cells of coarse cell c are the fine cells 4c..4c+3 (standard refinement numbering, subject of C10)",
    "sparsity patterns of the local transfer matrices come from SymbolicAssembler::assemble_matrix_2lvl, their values are synthetic exact dyadic numbers (the assembled transfer values are subject of C18)",
    "not executed: Transfer::convert to other data types, prol_cancel (documented as 'must not be called')"};
  spec.deadline_quick_s = 170; spec.deadline_thorough_s = 1500;

  return verif::run(spec, argc, argv, [&](verif::Ctx& c)
  {
    const bool T = c.thorough;
    {
      cpu_set_t set; CPU_ZERO(&set);
      long ncpu = sysconf(_SC_NPROCESSORS_ONLN); if(ncpu < 1) ncpu = 1;
      CPU_SET(int(c._me % ncpu), &set);
      sched_setaffinity(0, sizeof(set), &set);
    }
    struct Plan { vm::MeshSpec ms; bool tri; int pmax; bool all4; };
    std::vector<Plan> plans;
    plans.push_back({vm::gen_block(2, 2, 2, 0), false, 4, T});
    plans.push_back({vm::gen_star(true, 2, 4), true, 4, false});
    if(T) plans.push_back({vm::gen_block(2, 3, 2, 0), false, 3, false});
    for(const Plan& pl : plans)
    for(int P = 1; P <= pl.pmax; ++P)
    {
      std::vector<int> a;
      if(!first_assign(a, pl.ms.cells.size(), P)) continue;
      do
      {
        if(P == 4 && !pl.all4) { bool ident = true; for(size_t i = 0; i < a.size(); ++i) ident = ident && (a[i] == int(i)); if(!ident) continue; }
        for(int space = 0; space < tsp_count; ++space)
        for(int lay = 0; lay < 4; ++lay)
        {
          if(!c.want()) continue;
          TCfg cf; cf.mesh = pl.ms; cf.P = P; cf.assign = a; cf.space = space; cf.layout = (lay < 2 ? lay : 2); cf.parent = (lay == 3 ? P - 1 : 0);
          c.desc([&]{ return cf.str(); });
          if(lay == 3 && P == 1) { c.excluded("second parent choice with one rank"); continue; }
          if(pl.tri) run_case<Geometry::ConformalMesh<Shape::Simplex<2>, 2, double>>(c, cf);
          else run_case<Geometry::ConformalMesh<Shape::Hypercube<2>, 2, double>>(c, cf);
        }
      } while(next_assign(a, P));
    }
  });
}
