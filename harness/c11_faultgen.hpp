// c11_faultgen.hpp -- deterministic single-fault enumeration over a well-formed seed text (engine E5 "faultenum").
// Nothing here calls the library under test. The seed is analysed by a tiny line scanner that is only valid for
// the seeds under /verif/spec/mesh_seeds (one markup or one content line per line, as the writer emits them).
#pragma once
#include <cctype>
#include <cstdlib>
#include <functional>
#include <map>
#include <string>
#include <vector>

namespace c11
{
  enum Expect { EX_ANY = 0, EX_REJECT = 1, EX_SAME = 2, EX_ACCEPT = 3 };  // EX_SAME: must be accepted and give the seed's output

  struct AttrSpan { std::string name, value; size_t vbeg = 0, vend = 0, nbeg = 0; }; // [vbeg,vend) = value without quotes; [nbeg, vend+1) = name="value"

  struct Line
  {
    size_t beg = 0, end = 0;         // [beg,end) without the newline; nl = end+1 (or end at EOF)
    size_t next = 0;                 // start of next line
    enum K { blank, comment, open, close, closed, content } kind = blank;
    std::string tag;                 // for markups
    std::vector<std::string> path;   // enclosing open tags (not including this line's tag)
    std::vector<AttrSpan> attrs;
    bool in_info = false;
    int match = -1;                  // open <-> close line index
  };

  struct Token { size_t beg, end; size_t line; bool in_attr; std::string attr; };

  struct SeedModel
  {
    std::string name, text, default_type;
    std::vector<Line> lines;
    std::vector<Token> numtok;       // numeric tokens outside Info/comments

    static bool numeric(const std::string& s)
    {
      if(s.empty()) return false;
      char* e = nullptr;
      strtod(s.c_str(), &e);
      return e && *e == 0 && (std::isdigit((unsigned char)s[0]) || s[0] == '-' || s[0] == '+' || s[0] == '.');
    }
    static bool integer(const std::string& s)
    {
      if(s.empty()) return false;
      size_t i = (s[0] == '-' || s[0] == '+') ? 1 : 0;
      if(i >= s.size()) return false;
      for(; i < s.size(); ++i) if(!std::isdigit((unsigned char)s[i])) return false;
      return true;
    }

    void analyse()
    {
      lines.clear(); numtok.clear();
      std::vector<std::pair<std::string, int>> stack;
      size_t p = 0;
      while(p < text.size())
      {
        Line L;
        L.beg = p;
        size_t q = text.find('\n', p);
        if(q == std::string::npos) { L.end = text.size(); L.next = text.size(); } else { L.end = q; L.next = q + 1; }
        std::string s = text.substr(L.beg, L.end - L.beg);
        size_t a = s.find_first_not_of(" \t\r"), b = s.find_last_not_of(" \t\r");
        for(auto& st : stack) L.path.push_back(st.first);
        for(auto& st : stack) if(st.first == "Info") L.in_info = true;
        if(a == std::string::npos) L.kind = Line::blank;
        else
        {
          std::string t = s.substr(a, b - a + 1);
          if(t.compare(0, 4, "<!--") == 0) L.kind = Line::comment;
          else if(t.front() == '<' && t.back() == '>')
          {
            std::string in = t.substr(1, t.size() - 2);
            if(!in.empty() && in.front() == '/')
            {
              L.kind = Line::close; L.tag = in.substr(1);
              if(!stack.empty()) { L.match = stack.back().second; lines[size_t(L.match)].match = int(lines.size()); stack.pop_back(); }
              L.path.clear(); for(auto& st : stack) L.path.push_back(st.first);
            }
            else
            {
              bool cl = (!in.empty() && in.back() == '/');
              if(cl) in.pop_back();
              size_t n0 = in.find_first_of(" \t");
              L.tag = in.substr(0, n0);
              L.kind = cl ? Line::closed : Line::open;
              // attributes
              size_t off = L.beg + a + 1; // offset of 'in' in text
              size_t i = (n0 == std::string::npos) ? in.size() : n0;
              while(i < in.size())
              {
                size_t eq = in.find('=', i);
                if(eq == std::string::npos) break;
                size_t q1 = in.find('"', eq), q2 = (q1 == std::string::npos) ? q1 : in.find('"', q1 + 1);
                if(q2 == std::string::npos) break;
                AttrSpan as;
                std::string k = in.substr(i, eq - i);
                size_t ka = k.find_first_not_of(" \t"), kb = k.find_last_not_of(" \t");
                as.name = (ka == std::string::npos) ? std::string() : k.substr(ka, kb - ka + 1);
                as.value = in.substr(q1 + 1, q2 - q1 - 1);
                as.vbeg = off + q1 + 1; as.vend = off + q2;
                as.nbeg = off + i + (ka == std::string::npos ? 0 : ka);
                L.attrs.push_back(as);
                i = q2 + 1;
              }
              if(!cl) stack.emplace_back(L.tag, int(lines.size()));
            }
          }
          else L.kind = Line::content;
        }
        lines.push_back(L);
        p = L.next;
      }
      // numeric tokens
      for(size_t li = 0; li < lines.size(); ++li)
      {
        const Line& L = lines[li];
        if(L.in_info || L.kind == Line::comment || L.kind == Line::blank) continue;
        if(L.kind == Line::open && L.tag == "Info") continue;
        auto scan = [&](size_t b, size_t e, bool ia, const std::string& an)
        {
          size_t i = b;
          while(i < e)
          {
            while(i < e && std::isspace((unsigned char)text[i])) ++i;
            size_t j = i;
            while(j < e && !std::isspace((unsigned char)text[j])) ++j;
            if(j > i && numeric(text.substr(i, j - i))) numtok.push_back(Token{i, j, li, ia, an});
            i = j;
          }
        };
        if(L.kind == Line::content) scan(L.beg, L.end, false, std::string());
        else for(auto& as : L.attrs) scan(as.vbeg, as.vend, true, as.name);
      }
    }

    std::string replace(size_t b, size_t e, const std::string& with) const { return text.substr(0, b) + with + text.substr(e); }
    const AttrSpan* attr(const Line& L, const std::string& n) const { for(auto& a : L.attrs) if(a.name == n) return &a; return nullptr; }
    bool under(const Line& L, const std::string& tag) const { for(auto& p : L.path) if(p == tag) return true; return false; }
    std::string parent(const Line& L) const { return L.path.empty() ? std::string() : L.path.back(); }
    /// position just after the '>' of the root terminator
    size_t end_of_root() const
    {
      for(size_t i = lines.size(); i-- > 0;) if(lines[i].kind == Line::close && lines[i].path.empty()) return lines[i].end;
      return text.size();
    }
  };

  inline std::vector<std::string> split_ws(const std::string& s)
  {
    std::vector<std::string> r; size_t i = 0;
    while(i < s.size()) { while(i < s.size() && std::isspace((unsigned char)s[i])) ++i; size_t j = i; while(j < s.size() && !std::isspace((unsigned char)s[j])) ++j; if(j > i) r.push_back(s.substr(i, j - i)); i = j; }
    return r;
  }
  inline std::string join_ws(const std::vector<std::string>& v) { std::string r; for(size_t i = 0; i < v.size(); ++i) { if(i) r += ' '; r += v[i]; } return r; }
} // namespace c11
