// c12_control (variant mpi) -- C12 through the control layer: Control::Domain::PartiDomainControl runs on P rank threads over the
// in-process MPI model (engine/minimpi, default schedule), i.e. the real _check_parti / _apply_parti_* / extract_patch /
// _split_basemesh_halos (with its real gather / isend / irecv / bcast traffic) / hierarchy creation code.  Every rank exports its mesh
// nodes; the partition they form is then checked with the geometric C12 oracle against a reference refinement of the mesh file:
// cover, injectivity, neighbours == share-a-vertex, halo(r->s) == halo(s->r) as set and as sequence, and the global boundary computed
// by GlobalMaskedBoundaryFactory on every patch (halo exchange over the communicator).
#include <verif.hpp>
#include <kernel/runtime.hpp>
#include <kernel/util/simple_arg_parser.hpp>
#include <kernel/util/property_map.hpp>
#include <kernel/util/statistics.hpp>
#include <kernel/geometry/conformal_mesh.hpp>
#include <kernel/geometry/mesh_node.hpp>
#include <kernel/geometry/mesh_file_reader.hpp>
#include <kernel/geometry/boundary_factory.hpp>
#include <kernel/trafo/standard/mapping.hpp>
#include <kernel/space/lagrange1/element.hpp>
#include <kernel/util/dist.hpp>
#include <control/domain/parti_domain_control.hpp>
#include <c10_meshlib.hpp>
#include <mpi.h>
#include <mpi_explore.hpp>
#include <explore.hpp>
#include <vsched.h>
#include <sched.h>
#include <csignal>
#include <cstring>
#include <fstream>
#include <sys/time.h>
#include <time.h>

using namespace FEAT;
using namespace FEAT::Geometry;

// the genetic partitioner seeds with time(nullptr) and bounds its loops with gettimeofday: constant seed, virtual clock
static bool g_vclock_on = false;
static long g_vclock_s = 0;
extern "C" int gettimeofday(struct timeval* tv, void*) noexcept
{
  if(g_vclock_on) { g_vclock_s += 1; tv->tv_sec = 1000 + g_vclock_s; tv->tv_usec = 0; return 0; }
  struct timespec ts; clock_gettime(CLOCK_REALTIME, &ts);
  tv->tv_sec = ts.tv_sec; tv->tv_usec = ts.tv_nsec / 1000; return 0;
}
extern "C" time_t time(time_t* t) noexcept
{
  time_t v;
  if(g_vclock_on) v = 7;
  else { struct timespec ts; clock_gettime(CLOCK_REALTIME, &ts); v = ts.tv_sec; }
  if(t) *t = v;
  return v;
}

namespace
{
  typedef ConformalMesh<Shape::Hypercube<2>> MeshType;
  typedef MeshPart<MeshType> PartType;
  typedef RootMeshNode<MeshType> NodeType;
  typedef Trafo::Standard::Mapping<MeshType> TrafoType;
  typedef Space::Lagrange1::Element<TrafoType> SpaceType;
  typedef Control::Domain::SimpleDomainLevel<MeshType, TrafoType, SpaceType> DomainLevelType;
  constexpr int dim = 2;

  /// coordinates as bit patterns: entities are identified by bitwise identical vertex coordinates
  void extract_bits(vm::PMesh& m, const MeshType& mesh)
  {
    Index ne[4] = {0, 0, 0, 0};
    for(int d = 0; d <= dim; ++d) ne[d] = mesh.get_num_entities(d);
    vm::extract_topo<Shape::Hypercube<2>>(m, mesh.get_index_set_holder(), ne);
    m.wdim = 2;
    const auto& vs = mesh.get_vertex_set();
    m.vtx.resize(size_t(vs.get_num_vertices()));
    for(Index i = 0; i < vs.get_num_vertices(); ++i)
    {
      std::array<vm::i64, 3> p = {0, 0, 0};
      for(int j = 0; j < 2; ++j) { double x = vs[i][j]; if(x == 0.0) x = 0.0; vm::i64 b; std::memcpy(&b, &x, sizeof b); p[size_t(j)] = b; }
      m.vtx[size_t(i)] = p;
    }
  }

  typedef std::vector<std::array<vm::i64, 3>> GKey;
  GKey gkey(const vm::PMesh& M, int d, Index e)
  {
    GKey k;
    if(d == 0) k.push_back(M.vtx[size_t(e)]);
    else for(int j = 0; j < M.cnt(d, 0); ++j) k.push_back(M.vtx[size_t(M.tup(d, 0, e)[j])]);
    std::sort(k.begin(), k.end());
    return k;
  }

  struct Cfg
  {
    std::string mesh, levels, types, extern_names; int P = 1; int route = 0; int rank_elems = 1; bool multi = true; bool adapt_none = false;
    std::string str() const
    {
      return "mesh=" + mesh + " levels='" + levels + "' P=" + std::to_string(P) + " parti-type='" + types + "' extern-name='" + extern_names + "' rank-elems=" + std::to_string(rank_elems)
        + (route == 0 ? " via parse_args" : (route == 1 ? " via parse_property_map" : " defaults")) + (adapt_none ? " adapt=none" : " adapt=chart");
    }
  };

  struct LevelOut { int index = -1; int layer_size = 0; int layer_rank = -1; vm::PMesh pm; std::map<int, vm::PPart> halos; std::vector<int> nbr; vm::PPart gbnd; bool has_gbnd = false; };
  struct Out { bool done = false; std::string note, levels, parti; std::vector<LevelOut> lv; };

  void rank_main(const Cfg& cfg, const std::string& repo, Out& out)
  {
    Dist::Comm comm(Dist::Comm::world());
    Control::Domain::PartiDomainControl<DomainLevelType> domain(comm, cfg.multi);
    if(cfg.route == 0)
    {
      std::vector<std::string> av = {"c12_control"};
      if(!cfg.types.empty()) { av.push_back("--parti-type"); for(auto& t : String(cfg.types).split_by_whitespaces()) av.push_back(t); }
      if(!cfg.extern_names.empty()) { av.push_back("--parti-extern-name"); for(auto& t : String(cfg.extern_names).split_by_whitespaces()) av.push_back(t); }
      av.push_back("--parti-rank-elems"); av.push_back(std::to_string(cfg.rank_elems));
      av.push_back("--parti-genetic-time"); av.push_back("0"); av.push_back("0");
      std::vector<char*> argv; for(auto& s : av) argv.push_back(const_cast<char*>(s.c_str()));
      SimpleArgParser args(int(argv.size()), argv.data());
      Control::Domain::add_supported_pdc_args(args);
      if(!domain.parse_args(args)) { out.note = "parse_args failed"; return; }
    }
    else if(cfg.route == 1)
    {
      PropertyMap pm;
      if(!cfg.types.empty()) pm.add_entry("parti-type", cfg.types);
      if(!cfg.extern_names.empty()) pm.add_entry("parti-extern-name", cfg.extern_names);
      pm.add_entry("parti-rank-elems", std::to_string(cfg.rank_elems));
      pm.add_entry("parti-genetic-time-init", "0");
      pm.add_entry("parti-genetic-time-mutate", "0");
      if(!domain.parse_property_map(pm)) { out.note = "parse_property_map failed"; return; }
    }
    if(cfg.adapt_none) domain.set_adapt_mode(AdaptMode::none);
    domain.set_desired_levels(String(cfg.levels).split_by_whitespaces());
    {
      std::deque<String> files; files.push_back(String(repo + "/data/meshes/") + cfg.mesh);
      domain.create(files);
    }
    out.levels = domain.format_chosen_levels();
    out.parti = domain.get_chosen_parti_info();
    for(std::size_t i = 0; i < domain.size_physical(); ++i)
    {
      LevelOut lo;
      lo.index = domain.at(i)->get_level_index();
      lo.layer_size = domain.at(i).layer().comm().size();
      lo.layer_rank = domain.at(i).layer().comm().rank();
      const NodeType& node = *domain.at(i)->get_mesh_node();
      extract_bits(lo.pm, *node.get_mesh());
      for(const auto& h : node.get_halo_map()) if(h.second) { vm::PPart p; vm::extract_part(p, *h.second); lo.halos[h.first] = p; }
      lo.nbr = domain.at(i).layer().get_neighbor_ranks();
      if(i == 0)
      {
        // the global boundary of the partitioned domain as seen from this patch
        GlobalMaskedBoundaryFactory<MeshType> gf(*node.get_mesh());
        for(const auto& h : node.get_halo_map()) if(h.second) gf.add_halo(h.first, *h.second);
        gf.compile(domain.at(i).layer().comm());
        PartType gp(gf);
        vm::extract_part(lo.gbnd, gp); lo.has_gbnd = true;
      }
      out.lv.push_back(std::move(lo));
    }
    out.done = true;
  }

  std::vector<Out> execute(const Cfg& cfg, const std::string& repo, std::string& left)
  {
    std::vector<Out> outs{size_t(cfg.P)};
    minimpi::set_mode(minimpi::eager);
    vsched::reset(std::vector<int>(), false);
    g_vclock_on = true; g_vclock_s = 0;
    minimpi::run(cfg.P, [&](int rank) { rank_main(cfg, repo, outs[size_t(rank)]); });
    g_vclock_on = false;
    left = minimpi::leftovers(false);
    Statistics::reset();
    return outs;
  }

  struct DeadCtx { verif::Ctx* c = nullptr; } g_dead;
  void deadlock_cb(void*)
  {
    g_dead.c->fail("deadlock control layer", std::string("deadlock: no rank can make progress: ") + vsched::blocked_graph());
    g_dead.c->capped("deadlock-abort");
    g_dead.c->write_results();
    fflush(stdout);
    _exit(0);
  }

  /// reference: the mesh file refined `level` times on one process exactly as the control layer does (chart adaption unless switched off)
  bool reference(const std::string& path, int level, bool adapt_none, vm::PMesh& B)
  {
    std::ifstream ifs(path);
    if(!ifs.good()) return false;
    MeshFileReader reader(ifs);
    reader.read_root_markup();
    MeshAtlas<MeshType> atlas;
    std::unique_ptr<NodeType> node = NodeType::make_unique(nullptr, &atlas);
    reader.parse(*node, atlas, nullptr);
    for(int i = 0; i < level; ++i) node = node->refine_unique(adapt_none ? AdaptMode::none : AdaptMode::chart);
    extract_bits(B, *node->get_mesh());
    return true;
  }

  /// the geometric C12 oracle on exported plain data of one level; ranks = layer ranks
  void check_partition(verif::Ctx& c, const vm::PMesh& B, const std::vector<const LevelOut*>& lv, const std::string& ctx)
  {
    vm::Rep r; r.ctx = ctx; r.cap = 12;
    vm::TopoInfo tb; vm::check_topology(B, r, "reference");
    { vm::Rep rr; vm::check_topology(B, rr, "reference", &tb); }
    std::map<GKey, Index> bmap[3];
    for(int d = 0; d <= dim; ++d) for(Index e = 0; e < B.n[d]; ++e) if(!bmap[d].emplace(gkey(B, d, e), e).second) { c.fail("harness.reference-duplicate", ctx + ": duplicate geometric entity in the reference mesh"); return; }
    const size_t P = lv.size();
    std::vector<std::vector<Index>> tobase[3]; for(int d = 0; d <= dim; ++d) tobase[d].resize(P);
    std::vector<int> cover(size_t(B.n[dim]), 0);
    std::vector<std::vector<int>> vert_ranks(size_t(B.n[0]));
    for(size_t q = 0; q < P; ++q)
    {
      const LevelOut& L = *lv[q];
      const std::string rs = "rank " + vm::str(q);
      vm::Rep rt; rt.ctx = ctx + " " + rs; vm::check_topology(L.pm, rt, "patch.topology"); for(auto& x : rt.f) r.f.push_back(x);
      for(int d = 0; d <= dim; ++d)
      {
        tobase[d][q].assign(size_t(L.pm.n[d]), vm::NIL);
        std::set<Index> img;
        for(Index e = 0; e < L.pm.n[d]; ++e)
        {
          auto it = bmap[d].find(gkey(L.pm, d, e));
          if(it == bmap[d].end()) { r.fail("patch.entity-not-in-base.dim" + vm::str(d), rs + ": patch entity dim " + vm::str(d) + " #" + vm::str(e) + " does not exist (bitwise) in the one-process refinement of the mesh file"); break; }
          tobase[d][q][size_t(e)] = it->second;
          if(!img.insert(it->second).second) r.fail("patch.not-injective.dim" + vm::str(d), rs + ": two patch entities map to the same base entity");
        }
      }
      if(!r.ok()) continue;
      for(Index x : tobase[dim][q]) cover[size_t(x)] += 1;
      for(Index x : tobase[0][q]) vert_ranks[size_t(x)].push_back(int(q));
    }
    if(!r.ok()) { for(auto& x : r.f) c.fail(x.first, x.second); return; }
    for(Index e = 0; e < B.n[dim]; ++e) if(cover[size_t(e)] != 1) { r.fail("cover", "base cell #" + vm::str(e) + " is contained in " + vm::str(cover[size_t(e)]) + " patches"); break; }
    std::map<int, std::set<int>> nb;
    for(auto& vr : vert_ranks) for(int a : vr) for(int b : vr) if(a != b) nb[a].insert(b);
    for(size_t q = 0; q < P; ++q)
    {
      const LevelOut& L = *lv[q];
      std::set<int> hk; for(auto& h : L.halos) hk.insert(h.first);
      std::set<int> nr(L.nbr.begin(), L.nbr.end());
      if(hk != nb[int(q)]) r.fail("halo.keys", "rank " + vm::str(q) + ": halo map has " + vm::str(hk.size()) + " entries, " + vm::str(nb[int(q)].size()) + " patches share a vertex with it");
      if(nr != nb[int(q)] || nr.size() != L.nbr.size()) r.fail("neighbours.set", "rank " + vm::str(q) + ": layer neighbour ranks (" + vm::str(L.nbr.size()) + ") are not the patches sharing a vertex (" + vm::str(nb[int(q)].size()) + ")");
    }
    if(!r.ok()) { for(auto& x : r.f) c.fail(x.first, x.second); return; }
    for(size_t q = 0; q < P; ++q) for(int o : nb[int(q)])
    {
      const LevelOut& L = *lv[q]; const LevelOut& O = *lv[size_t(o)];
      const std::string ps = "halo " + vm::str(q) + "->" + vm::str(o);
      const vm::PPart& H1 = L.halos.at(o); const vm::PPart& H2 = O.halos.at(int(q));
      for(int d = 0; d <= dim; ++d)
      {
        std::vector<Index> s1, s2; bool bad = false;
        for(Index x : H1.trg[d]) { if(x >= L.pm.n[d]) { bad = true; break; } s1.push_back(tobase[d][q][size_t(x)]); }
        for(Index x : H2.trg[d]) { if(x >= O.pm.n[d]) { bad = true; break; } s2.push_back(tobase[d][size_t(o)][size_t(x)]); }
        if(bad) { r.fail("halo.bound.dim" + vm::str(d), ps + ": target out of range"); continue; }
        std::set<Index> mine(tobase[d][q].begin(), tobase[d][q].end()), shared;
        for(Index x : tobase[d][size_t(o)]) if(mine.count(x)) shared.insert(x);
        std::set<Index> have(s1.begin(), s1.end());
        if(have.size() != s1.size()) r.fail("halo.duplicates.dim" + vm::str(d), ps + ": an entity is listed twice");
        if(have != shared) r.fail("halo.set.dim" + vm::str(d), ps + ": halo lists " + vm::str(have.size()) + " entities of dim " + vm::str(d) + ", the two patches share " + vm::str(shared.size()));
        if(int(q) < o && s1 != s2) r.fail("halo.order.dim" + vm::str(d), ps + ": the two sides enumerate the shared entities of dim " + vm::str(d) + " differently");
        c.count("halo_pairs_dims_checked");
      }
    }
    // global boundary
    std::set<Index> gb[4]; vm::boundary_sets(B, tb, gb);
    for(size_t q = 0; q < P; ++q)
    {
      const LevelOut& L = *lv[q];
      if(!L.has_gbnd) continue;
      for(int d = 0; d < dim; ++d)
      {
        std::set<Index> want, have;
        for(Index x : tobase[d][q]) if(gb[d].count(x)) want.insert(x);
        for(Index x : L.gbnd.trg[d]) if(x < L.pm.n[d]) have.insert(tobase[d][q][size_t(x)]);
        if(have != want || have.size() != L.gbnd.trg[d].size())
          r.fail("globalboundary.dim" + vm::str(d), "rank " + vm::str(q) + ": GlobalMaskedBoundaryFactory lists " + vm::str(L.gbnd.trg[d].size()) + " entities of dim " + vm::str(d) + ", the domain boundary restricted to the patch has " + vm::str(want.size()));
      }
      c.count("global_boundaries_checked");
    }
    for(auto& x : r.f) c.fail(x.first, x.second);
  }
}

int main(int argc, char** argv)
{
  Runtime::ScopeGuard guard(argc, argv);
  verif::Spec spec; spec.property = "C12"; spec.harness = "c12_control";
  spec.rule = "case = (mesh file, desired-level string incl. multi-layered hierarchies, ranks P, allowed partitioner types / extern partition names / elements per rank, "
    "configuration route parse_args / parse_property_map / defaults, adapt mode); PartiDomainControl::create runs on P rank threads over the MPI model (default schedule); "
    "every level on which all P ranks own a patch is checked geometrically against the one-process refinement of the file. Non-trivial = P >= 2; hash = configuration string";
  spec.bounds_quick = "unit-square-quad, unit_circle_quad_5 (chart adaption), l-shape-quad (re-entrant corner), flowbench_c2d_01_quad_32 (extern partitions 'auto'/'other'); P in {1,2,3,4,5,6,8}; levels '2 0', '3 1', '3 1:1 0', '3 2:2 0', '4 3:4 2:2 0'; "
    "partitioner types default / 2level / naive / genetic(time 0, fixed seed) / extern+names; rank-elems 1,4";
  spec.bounds_thorough = "as quick plus P in {12,16}";
  spec.assumptions = {"MPI behaves as modelled by engine/minimpi; default schedule only (schedule exploration of the control layer belongs to C13)",
    "entities are identified by bitwise identical vertex coordinates; the reference is FEAT's own one-process refinement of the mesh file (StandardRefinery verified by C10)",
    "genetic partitioner: time(nullptr) fixed to 7 and a virtual clock, budgets 0; METIS / Zoltan are not in the build",
    "only levels whose layer communicator spans all P ranks are compared (coarser layers of a multi-layered hierarchy live on a subset of the ranks)"};
  spec.deadline_quick_s = 240; spec.deadline_thorough_s = 1500; spec.case_timeout_s = 120;
  const char* vr = std::getenv("VERIF_REPO");
  const std::string repo = vr ? vr : "/repo";
  return verif::run(spec, argc, argv, [&](verif::Ctx& c)
  {
    {
      cpu_set_t set; CPU_ZERO(&set);
      long ncpu = sysconf(_SC_NPROCESSORS_ONLN); if(ncpu < 1) ncpu = 1;
      CPU_SET(int(c._me % ncpu), &set);
      sched_setaffinity(0, sizeof(set), &set);
    }
    vsched::set_deadlock_cb(deadlock_cb, nullptr);
    struct MeshCfg { const char* file; std::vector<std::pair<std::string, std::string>> types; };
    const std::vector<MeshCfg> meshes = {
      {"unit-square-quad.xml", {{"", ""}, {"2level", ""}, {"naive", ""}, {"genetic", ""}, {"genetic naive", ""}}},
      {"unit_circle_quad_5.xml", {{"", ""}, {"naive", ""}, {"genetic", ""}}},
      {"l-shape-quad.xml", {{"", ""}, {"naive", ""}, {"genetic", ""}}}, // re-entrant corner: boundary vertices known only through neighbours
      {"flowbench_c2d_01_quad_32.xml", {{"", ""}, {"extern", "auto"}, {"extern", "other"}, {"extern naive", "nonexistent"}, {"naive", ""}}}};
    const std::vector<std::string> levels = {"2 0", "3 1", "3 1:1 0", "3 2:2 0", "4 3:4 2:2 0"};
    std::vector<int> Ps = {1, 2, 3, 4, 5, 6, 8};
    if(c.thorough) { Ps.push_back(12); Ps.push_back(16); }
    int code = 0;
    for(const auto& mc : meshes) for(const auto& ty : mc.types) for(const std::string& lv : levels) for(int P : Ps) for(int re : {1, 4})
    {
      ++code;
      if(re == 4 && !(ty.first == "naive" || ty.first.empty())) continue;
      if(!c.want()) continue;
      Cfg cfg; cfg.mesh = mc.file; cfg.levels = lv; cfg.P = P; cfg.types = ty.first; cfg.extern_names = ty.second; cfg.rank_elems = re;
      cfg.route = ty.first.empty() && re == 1 ? 2 : code % 2; cfg.multi = true; cfg.adapt_none = (code % 5 == 0);
      c.desc([&]{ return cfg.str(); });
      // layered hierarchies need enough ranks
      int need = 1; { for(auto& t : String(lv).split_by_whitespaces()) { size_t p = t.find(':'); if(p != t.npos) need = std::max(need, atoi(t.substr(p + 1).c_str())); } }
      if(need > 1 && (P < 2 * need || P % need != 0)) { c.excluded("layered hierarchy '" + lv + "' needs a multiple of its layer sizes as rank count"); continue; }
      if(lv.find(':') != lv.npos && P < 2) { c.excluded("layered hierarchy on one rank"); continue; }
      if(ty.first == "extern" && lv.find(':') != lv.npos) { c.excluded("extern partitioner alone in a layered hierarchy (only the base layer can use an extern partition)"); continue; }
      if(ty.first == "2level" && lv.find(':') != lv.npos) { c.excluded("2-level partitioner alone in a layered hierarchy (existence of a partition of the inner layers is not predicted by the harness)"); continue; }
      g_dead.c = &c;
      std::string left;
      // only the 2-level partitioner allowed and no 2-level partition exists (unit square: P must be a power of two), or only
      // extern partitions allowed and the file has none for P ranks (flowbench_c2d_01: 'auto' for 2,4,8, 'other' for 8):
      // the control layer must report the failure (it aborts with "Failed to find a suitable partitioning"), not hang or continue
      const bool no_extern = (ty.first == "extern" && P > 1 && !((ty.second == "auto" && (P == 2 || P == 4 || P == 8)) || (ty.second == "other" && P == 8)));
      if(no_extern || (ty.first == "2level" && std::string(mc.file) == "unit-square-quad.xml" && (P & (P - 1)) != 0))
      {
        const int rc = c.run_forked([&]{ std::string l2; execute(cfg, repo, l2); }, 60);
        c.check(rc == SIGABRT, "control.no-partition-must-abort", [&]{ return "no admissible partitioner can produce " + std::to_string(P) + " patches, expected abort, run_forked code " + std::to_string(rc); });
        c.nontrivial(verif::Hash().str(cfg.str()).get());
        c.outcome("reports failure (abort)");
        c.count("expected_failures_checked");
        continue;
      }
      std::vector<Out> outs = execute(cfg, repo, left);
      c.nontrivial(verif::Hash().str(cfg.str()).get());
      bool all = true;
      for(int r = 0; r < P; ++r) if(!outs[size_t(r)].done) { c.fail("control.rank-did-not-finish", "rank " + std::to_string(r) + ": " + outs[size_t(r)].note); all = false; }
      if(!all) continue;
      c.check(left.empty(), "control.mpi-leftovers", [&]{ return "MPI objects left behind: " + left; });
      for(int r = 1; r < P; ++r) c.check(outs[size_t(r)].levels == outs[0].levels && (lv.find(':') != lv.npos || outs[size_t(r)].parti == outs[0].parti), "control.ranks-disagree", [&]{ return "ranks 0 and " + std::to_string(r) + " report different chosen levels / partitioner info: '" + outs[0].levels + "' / '" + outs[size_t(r)].levels + "'"; });
      c.outcome(std::string(outs[0].parti.c_str()).substr(0, 40));
      // the partition that was asked for by name is the one that is used
      if(P > 1 && lv.find(':') == lv.npos && ty.first.compare(0, 6, "extern") == 0)
      {
        const std::string info(outs[0].parti.c_str());
        if(ty.second == "nonexistent") c.check(info.find("extern") == std::string::npos, "control.extern-name", [&]{ return "no partition is called 'nonexistent' but the control layer reports: " + info; });
        else c.check(info.find("extern partition '" + ty.second + "'") != std::string::npos, "control.extern-name", [&]{ return "extern partition '" + ty.second + "' was requested for " + std::to_string(P) + " ranks but the control layer reports: " + info; });
      }
      // every physical level of rank 0 whose layer spans all ranks
      for(size_t i = 0; i < outs[0].lv.size(); ++i)
      {
        if(outs[0].lv[i].layer_size != P) continue;
        const int li = outs[0].lv[i].index;
        std::vector<const LevelOut*> lvp(size_t(P), nullptr);
        bool ok = true;
        for(int r = 0; r < P; ++r)
        {
          for(const LevelOut& lo : outs[size_t(r)].lv) if(lo.index == li && lo.layer_size == P) { if(lo.layer_rank >= 0 && lo.layer_rank < P) lvp[size_t(lo.layer_rank)] = &lo; }
        }
        for(auto* p : lvp) if(p == nullptr) ok = false;
        if(!c.check(ok, "control.level-missing", [&]{ return "level " + std::to_string(li) + " is not present on every rank of its layer"; })) continue;
        vm::PMesh B;
        if(!reference(repo + "/data/meshes/" + cfg.mesh, li, cfg.adapt_none, B)) { c.fail("harness.reference", "cannot build the reference mesh"); continue; }
        check_partition(c, B, lvp, "level " + std::to_string(li) + " (" + std::string(outs[0].parti.c_str()) + ")");
        c.count("levels_checked");
        c.count("patches_checked", uint64_t(P));
      }
    }
  });
}
