// C06 -- filters impose their constraints exactly and idempotently on vectors and matrices.
//
// Every case builds a real FEAT filter and a real vector/matrix, applies filter_rhs/sol/def/cor (once and twice) or
// filter_mat/filter_offdiag_row_mat/filter_weak_matrix_rows and compares with a reference model written here
// (c06_common.hpp): prescribed entries == exactly, unconstrained entries bitwise unchanged, second application changes
// nothing (bitwise for unit filters, within the rounding bound of the reference for slip/mean), the defining functional
// (normal component, weighted mean) vanishes up to rounding, filter objects are not modified by their application.
#include "c06_config.hpp"
#include "c06_common.hpp"
#include <memory>
#include <type_traits>

using namespace c06;

namespace
{
  // ------------------------------------------------------------------------------------------------ generic driver
  template<typename F, typename V, typename Model, typename Cons>
  void check_vec(verif::Ctx& c, const std::string& key, const F& f, V& v, int op, Model&& model, Cons&& cons)
  {
    typedef typename V::DataType DT;
    const std::vector<DT> x = flat_of(v);
    Ref r = Ref::from(x);
    model(r);
    apply_op(f, v, op);
    const std::vector<DT> y1 = flat_of(v);
    const std::string k = key + "." + fop_name[op];
    compare(c, k, x, y1, r);
    cons(y1, k + " (1st application)", r);
    apply_op(f, v, op);
    const std::vector<DT> y2 = flat_of(v);
    compare_idem(c, k, y1, y2, r);
    cons(y2, k + " (2nd application)", r);
    c.count("filter_applications", 2);
  }
  auto no_cons = [](const auto&, const std::string&, const Ref&) {};

  template<typename SV> std::vector<unsigned char> sv_state(const SV& sv)
  {
    std::vector<unsigned char> s;
    const Index ue = sv.used_elements();
    auto put = [&](const void* p, size_t n) { const unsigned char* q = static_cast<const unsigned char*>(p); s.insert(s.end(), q, q + n); };
    Index sz = sv.size(); put(&sz, sizeof sz); put(&ue, sizeof ue);
    if(ue > 0)
    {
      put(sv.indices(), ue * sizeof(typename SV::IndexType));
      put(sv.template elements<Perspective::pod>(), sv.template used_elements<Perspective::pod>() * sizeof(typename SV::DataType));
    }
    return s;
  }

  inline std::string set_name(unsigned S, int n)
  {
    std::string s = "{";
    for(int i = 0; i < n; ++i) if((S >> i) & 1u) { if(s.size() > 1) s += ","; s += std::to_string(i); }
    return s + "}";
  }

  /// long double Gaussian elimination with partial pivoting; false if (numerically) singular
  bool solve_dense(std::vector<std::vector<LD>> a, std::vector<LD> b, std::vector<LD>& x)
  {
    const size_t n = b.size();
    for(size_t k = 0; k < n; ++k)
    {
      size_t p = k;
      for(size_t i = k + 1; i < n; ++i) if(std::fabs(a[i][k]) > std::fabs(a[p][k])) p = i;
      if(std::fabs(a[p][k]) < 1e-9L) return false;
      std::swap(a[p], a[k]); std::swap(b[p], b[k]);
      for(size_t i = k + 1; i < n; ++i)
      {
        LD f = a[i][k] / a[k][k];
        for(size_t j = k; j < n; ++j) a[i][j] -= f * a[k][j];
        b[i] -= f * b[k];
      }
    }
    x.assign(n, 0);
    for(size_t k = n; k-- > 0;)
    {
      LD s = b[k];
      for(size_t j = k + 1; j < n; ++j) s -= a[k][j] * x[j];
      x[k] = s / a[k][k];
    }
    return true;
  }

  // ------------------------------------------------------------------------------------------------ A: UnitFilter, vectors
  enum { ORD_ASC = 0, ORD_DESC = 1, ORD_ARRAY = 2, ORD_DUP = 3, ORD_DEFAULT = 4, ORD_SCRAMBLED = 5, ORD_INCR = 6, NUM_ORD = 7 };
  const char* ord_name[NUM_ORD] = {"add ascending", "add descending", "array ctor", "add twice (last value counts)", "default-constructed filter",
    "add scrambled (odd indices descending, then even ascending)", "add half, apply once to a scratch vector, add the rest"};

  // how the filter object under test came into being (pattern "derived objects")
  enum { FD_NONE = 0, FD_CLONE_DEEP, FD_CLONE_SHALLOW, FD_MOVE_ASSIGN, FD_CLONE_INTO, FD_CONVERT, FD_CLEAR_REASSIGN, NUM_FD };
  const char* fd_name[NUM_FD] = {"as built", "clone(Deep)", "clone(Shallow)", "move-assigned over a used filter", "clone(other) into a used filter", "convert() from the other data type", "move-assigned over a used and then clear()ed filter"};

  /// the order in which the entries of a set are added
  inline std::vector<Index> add_order(const std::vector<Index>& asc, int order)
  {
    std::vector<Index> o;
    if(order == ORD_DESC) o.assign(asc.rbegin(), asc.rend());
    else if(order == ORD_SCRAMBLED)
    {
      for(auto it = asc.rbegin(); it != asc.rend(); ++it) if(*it % 2) o.push_back(*it);
      for(Index i : asc) if(!(i % 2)) o.push_back(i);
    }
    else o = asc;
    return o;
  }

  template<typename DT, typename IT = Index>
  UnitFilter<DT, IT> make_unit(int n, unsigned S, int order, RUnit& ref, int fno = 0)
  {
    typedef UnitFilter<DT, IT> UF;
    ref.m.clear();
    std::vector<Index> asc;
    for(int i = 0; i < n; ++i) if((S >> i) & 1u) { ref.m[Index(i)] = LD(pval_dt<DT>(Index(i), fno)); asc.push_back(Index(i)); }
    if(order == ORD_DEFAULT) return UF();
    if(order == ORD_ARRAY)
    {
      DenseVector<DT, IT> vals{Index(ref.m.size())};
      DenseVector<IT, IT> idx{Index(ref.m.size())};
      size_t k = 0;
      for(auto& e : ref.m) { vals.elements()[k] = DT(e.second); idx.elements()[k] = IT(e.first); ++k; }
      return UF(Index(n), vals, idx);
    }
    UF f{Index(n)};
    if(order == ORD_DUP)
    {
      for(auto& e : ref.m) f.add(IT(e.first), DT(-77));
      for(auto it = ref.m.rbegin(); it != ref.m.rend(); ++it) f.add(IT(it->first), DT(it->second));
    }
    else if(order == ORD_INCR)
    {
      // re-invocation on an existing object: the filter is used (which sorts its entry list) and extended afterwards
      const size_t half = asc.size() / 2;
      for(size_t k = asc.size(); k-- > half;) f.add(IT(asc[k]), DT(ref.m[asc[k]]));
      DenseVector<DT, IT> scratch(Index(n), DT(1));
      f.filter_rhs(scratch); f.filter_def(scratch);
      for(size_t k = 0; k < half; ++k) f.add(IT(asc[k]), DT(ref.m[asc[k]]));
    }
    else
      for(Index i : add_order(asc, order)) f.add(IT(i), DT(ref.m[i]));
    return f;
  }

  /// MeanFilterBlocked::clear() does not compile on the pinned tree (Tiny::Vector has no clear(); proposed fix
  /// spec/proposed_fixes/C06-mean-filter-blocked-convert-clear.patch): set C06_HAVE_MEANB_FIX once it is repaired
  template<typename F> struct CanClear { static constexpr bool value = true; };
#ifndef C06_HAVE_MEANB_FIX
  template<typename DT, typename IT, int BS> struct CanClear<MeanFilterBlocked<DT, IT, BS>> { static constexpr bool value = false; };
#endif
  /// derives the filter under test from the built one; 'keep' receives the source object (it must stay usable and unchanged)
  template<typename F, typename MakeOther>
  F derive_filter(F&& built, int fd, std::vector<std::shared_ptr<void>>& keep, MakeOther&& make_other, F** srcp = nullptr)
  {
    if(srcp) *srcp = nullptr;
    switch(fd)
    {
    case FD_CLONE_DEEP: case FD_CLONE_SHALLOW:
    {
      auto src = std::make_shared<F>(std::move(built)); keep.push_back(src);
      if(srcp && fd == FD_CLONE_DEEP) *srcp = src.get();
      return src->clone(fd == FD_CLONE_DEEP ? CloneMode::Deep : CloneMode::Shallow);
    }
    case FD_MOVE_ASSIGN: case FD_CLEAR_REASSIGN:
    {
      F t = make_other();
      if constexpr(CanClear<F>::value) { if(fd == FD_CLEAR_REASSIGN) t.clear(); }
      t = std::move(built);
      return t;
    }
    case FD_CLONE_INTO:
    {
      auto src = std::make_shared<F>(std::move(built)); keep.push_back(src);
      F t = make_other();
      t.clone(*src, CloneMode::Deep);
      if(srcp) *srcp = src.get();
      return t;
    }
    default:
      return std::move(built);
    }
  }

  template<typename DT, typename IT = Index>
  void unit_vectors(verif::Ctx& c, const std::string& kname)
  {
    typedef UnitFilter<DT, IT> UF;
    typedef typename std::conditional<std::is_same<DT, double>::value, float, double>::type DT2;
    const int N = c.thorough ? 14 : 10;
    for(int n = 0; n <= N; ++n) for(unsigned S = 0; S < (1u << n); ++S) for(int order = 0; order < NUM_ORD; ++order) for(int fd = 0; fd < NUM_FD; ++fd) for(int vm = 0; vm < 3; ++vm) for(int op = 0; op < 4; ++op)
    {
      if(order == ORD_ARRAY && S == 0) continue;     // the array constructor asserts size > 0 and needs non-empty arrays
      if(order == ORD_DEFAULT && S != 0) continue;
      if((order == ORD_DUP || order == ORD_SCRAMBLED || order == ORD_INCR) && S == 0) continue;
      // derived filters and the special value modes are combined with the basic orders and n <= 6 (all index sets)
      if((fd != FD_NONE || vm != 0) && (n > 6 || !(order == ORD_ASC || order == ORD_DESC))) continue;
      if(fd != FD_NONE && vm != 0) continue;
      if(fd == FD_CONVERT && n == 0) continue;
      if(!c.want()) continue;
      c.desc([&]{ return kname + " n=" + std::to_string(n) + " constrained=" + set_name(S, n) + " built by: " + ord_name[order] + " filter=" + fd_name[fd]
        + " values=" + (vm == 0 ? "coded" : vm == 1 ? "prescribed 0/1/-1, all-negative vector" : "extreme prescribed values") + " op=" + fop_name[op]; });
      g_pvmode = vm; g_xneg = (vm == 1);
      RUnit ref, rtwin, rother;
      std::vector<std::shared_ptr<void>> keep;
      UF f; UF* srcp = nullptr;
      if(fd == FD_CONVERT)
      {
        // values are exactly representable in both types (mode 0)
        auto src = std::make_shared<UnitFilter<DT2, IT>>(make_unit<DT2, IT>(n, S, order, ref)); keep.push_back(src);
        f = make_unit<DT, IT>(n, ~S & ((1u << n) - 1u), ORD_ASC, rother, 2);
        f.convert(*src);
      }
      else
        f = derive_filter(make_unit<DT, IT>(n, S, order, ref), fd, keep, [&]{ return make_unit<DT, IT>(n, ~S & ((1u << n) - 1u), ORD_ASC, rother, 2); }, &srcp);
      DenseVector<DT, IT> v{Index(n)};
      for(int i = 0; i < n; ++i) v.elements()[i] = DT(xval(Index(i)));
      // NOTE: the filter operation is the FIRST access to the filter after its construction (no accessor sorted it before)
      check_vec(c, kname, f, v, op, [&](Ref& r) { ref.apply(r, op); }, no_cons);
      // the application did not change the filter: it equals an identically specified twin
      UF twin = make_unit<DT, IT>(n, S, order == ORD_DEFAULT ? ORD_DEFAULT : ORD_ASC, rtwin);
      c.check(sv_state(f.get_filter_vector()) == sv_state(twin.get_filter_vector()) || order == ORD_DEFAULT, kname + ": filter modified by application", "index/value arrays of the filter differ from those of an identically specified filter");
      c.check(order == ORD_DEFAULT || (f.size() == Index(n) && f.used_elements() == Index(ref.m.size())), kname + ": filter size/used_elements", "wrong size()/used_elements()");
      // the source of a deep clone is still the filter it was: same state, same effect
      if(srcp != nullptr)
      {
        DenseVector<DT, IT> w{Index(n)};
        for(int i = 0; i < n; ++i) w.elements()[i] = DT(xval(Index(i), 1));
        check_vec(c, kname + " [source of the derived filter]", *srcp, w, op, [&](Ref& r) { ref.apply(r, op); }, no_cons);
        c.check(sv_state(srcp->get_filter_vector()) == sv_state(twin.get_filter_vector()), kname + ": source of the derived filter modified", "the filter a clone was taken from changed");
      }
      g_pvmode = 0; g_xneg = 0;
      if(S != 0) c.nontrivial(verif::Hash().str(kname).pod(n).pod(S).pod(order).pod(fd).pod(vm).pod(op).get());
      if(fd != FD_NONE) c.count("cases_on_derived_filters");
      c.outcome(std::string("unit vector ") + (S == 0 ? "no constraint" : S + 1 == (1u << n) ? "all constrained" : "proper subset"));
    }
  }

  // ------------------------------------------------------------------------------------------------ B: UnitFilter, CSR matrices
  enum { M_MAT = 0, M_OFFDIAG = 1, M_WEAK = 2 };
  const char* mop_name[3] = {"filter_mat", "filter_offdiag_row_mat", "filter_weak_matrix_rows"};

  template<typename DT, typename IT = Index>
  void unit_csr(verif::Ctx& c, const std::string& kname, int nmcap = 5)
  {
    typedef SparseMatrixCSR<DT, IT> Mat;
    const int NM = std::min(nmcap, c.thorough ? 5 : 4);
    for(int n = 1; n <= NM; ++n) for(int m = 1; m <= NM; ++m)
    {
      // quick: all shapes up to 4x4; thorough adds 4x5 (2^20 patterns) for double
      if(n == 5) continue;
      if(m == 5 && (n != 4 || sizeof(DT) != sizeof(double))) continue;
      for(unsigned pat = 0; pat < (1u << (n * m)); ++pat) for(unsigned S = 0; S < (1u << n); ++S) for(int mop = 0; mop < 3; ++mop)
      {
        // the donor of filter_weak_matrix_rows must share the layout arrays (asserted) = weak clone; a matrix without
        // stored entries has a null column array which Container::clone cannot share (aborts in increase_memory): not generated
        if(mop == M_WEAK && pat == 0) continue;
        if(!c.want()) continue;
        // derived / pre-used filters and the value modes rotate deterministically with the coordinates
        const int fd = ((pat + 2 * S) % 5 == 0) ? FD_CLONE_DEEP : ((pat + 2 * S) % 5 == 1) ? FD_MOVE_ASSIGN : FD_NONE;
        const bool preuse = ((pat / 2 + S) % 2) == 1;
        const int vm = (mop == M_WEAK) ? int((pat + S) % 3) : 0;
        c.desc([&]{ return kname + " " + mop_name[mop] + " CSR " + std::to_string(n) + "x" + std::to_string(m) + " pattern(bit i*m+j)=" + std::to_string(pat) + " constrained rows=" + set_name(S, n)
          + " filter=" + fd_name[fd] + (preuse ? " (used on another matrix before)" : "") + " value-mode=" + std::to_string(vm); });
        g_pvmode = vm;
        RUnit ref, rother;
        std::vector<std::shared_ptr<void>> keep;
        UnitFilter<DT, IT> f = derive_filter(make_unit<DT, IT>(n, S, (pat + S) % 2 ? ORD_DESC : ORD_ASC, ref), fd, keep, [&]{ return make_unit<DT, IT>(n, ~S & ((1u << n) - 1u), ORD_ASC, rother, 2); });
        g_pvmode = 0;
        if(preuse)
        {
          // re-invocation: the same filter object already filtered a matrix with another pattern
          Mat b = make_csr<DT, IT>(n, m, ~pat & ((1u << (n * m)) - 1u) ? (~pat & ((1u << (n * m)) - 1u)) : 1u, 3);
          if(mop == M_MAT) f.filter_mat(b); else f.filter_offdiag_row_mat(b);
        }
        Mat a = make_csr<DT, IT>(n, m, pat);
        MatSnap<Mat> s0(a);
        const std::string key = kname + "." + mop_name[mop] + " CSR";
        bool missing_diag = false;
        std::vector<DT> exp = s0.val;
        if(mop == M_WEAK)
        {
          Mat mm = a.clone(CloneMode::Weak); // shares the layout arrays, own values
          for(Index k = 0; k < mm.used_elements(); ++k) mm.val()[k] = DT(LD(3 + (k % 5)) / 4);
          MatSnap<Mat> sm0(mm);
          f.filter_weak_matrix_rows(a, mm);
          for(auto& e : ref.m) for(Index k = s0.rp[e.first]; k < s0.rp[e.first + 1]; ++k) exp[k] = DT(e.second) * sm0.val[k];
          MatSnap<Mat> sm1(mm);
          c.check(sm1.val == sm0.val, key + ": donor matrix modified", "values of the donor matrix changed");
        }
        else
        {
          if(mop == M_MAT) f.filter_mat(a); else f.filter_offdiag_row_mat(a);
          for(auto& e : ref.m)
          {
            bool has_diag = false;
            for(Index k = s0.rp[e.first]; k < s0.rp[e.first + 1]; ++k)
            {
              const bool dg = (s0.ci[k] == e.first);
              exp[k] = (mop == M_MAT && dg) ? DT(1) : DT(0);
              has_diag = has_diag || dg;
            }
            if(mop == M_MAT && !has_diag) missing_diag = true;
          }
        }
        MatSnap<Mat> s1(a);
        c.check(s1.rp == s0.rp && s1.ci == s0.ci && s1.rows == s0.rows && s1.cols == s0.cols && s1.used == s0.used, key + ": layout changed", "row pointer / column indices / dimensions changed");
        bool ok = s1.val.size() == exp.size();
        for(size_t k = 0; ok && k < exp.size(); ++k) if(!bits_equal(s1.val[k], exp[k])) ok = false;
        c.check(ok, key + ": wrong matrix entries", [&]{ return "values " + fmtv(s1.val) + " expected " + fmtv(exp) + " (constrained rows: unit/zero/scaled donor row, all other rows bitwise unchanged)"; });
        // idempotence of the matrix filters
        if(mop != M_WEAK)
        {
          if(mop == M_MAT) f.filter_mat(a); else f.filter_offdiag_row_mat(a);
          MatSnap<Mat> s2(a);
          c.check(s2.val == s1.val, key + ": not idempotent", "second application changed the matrix");
        }
        // the filtered system takes the prescribed values (square, stored diagonals, regular)
        if(mop == M_MAT && n == m && !missing_diag && S != 0)
        {
          std::vector<std::vector<LD>> d; d.assign(size_t(n), std::vector<LD>(size_t(n), LD(0)));
          for(int i = 0; i < n; ++i) for(Index k = s1.rp[size_t(i)]; k < s1.rp[size_t(i) + 1]; ++k) d[size_t(i)][s1.ci[k]] = LD(s1.val[k]);
          DenseVector<DT, IT> b{Index(n)};
          for(int i = 0; i < n; ++i) b.elements()[i] = DT(xval(Index(i), 3));
          f.filter_rhs(b);
          std::vector<LD> rhs; rhs.resize(size_t(n)); std::vector<LD> u;
          for(int i = 0; i < n; ++i) rhs[size_t(i)] = LD(b.elements()[i]);
          if(solve_dense(d, rhs, u))
          {
            bool sok = true;
            for(auto& e : ref.m) if(std::fabs(u[e.first] - e.second) > 1e-12L * (1 + std::fabs(e.second))) sok = false;
            c.check(sok, key + ": solution of the filtered system misses the boundary values", "dense solve of filter_mat(A) u = filter_rhs(b) does not return the prescribed values at the constrained rows");
            c.count("filtered_systems_solved");
          }
          else c.count("filtered_systems_singular_skipped");
        }
        if(missing_diag) c.count("rows_without_stored_diagonal (only the zero row is demanded)");
        c.count("matrix_filter_applications");
        if(S != 0 && pat != 0) c.nontrivial(verif::Hash().str(kname).pod(n).pod(m).pod(pat).pod(S).pod(mop).get());
        if(fd != FD_NONE) c.count("cases_on_derived_filters");
        if(preuse) c.count("cases_on_previously_used_filters");
        c.outcome(std::string("unit csr ") + mop_name[mop] + (missing_diag ? " missing diagonal" : ""));
      }
    }
  }
}

#include "c06_sections2.hpp"
#include "c06_sections.hpp"
#include "c06_sections3.hpp"

int main(int argc, char** argv)
{
  FEAT::Runtime::ScopeGuard guard(argc, argv);
  verif::Spec spec; spec.property = "C06"; spec.harness = "c06_filter";
  spec.rule = "cases = (filter kind, vector length / matrix shape, constrained index set, construction order, prescribed values/normals/weights, operation). "
    "Non-trivial iff at least one entry is constrained (unit/slip), the weight vectors are non-empty (mean), resp. the matrix has stored entries; hashed by all enumeration coordinates.";
  spec.bounds_quick = "UnitFilter<double|float|double,u32>: n=0..10, all 2^n index sets, 7 construction orders (incl. scrambled and add-use-add), for n<=6 also derived filters (deep/shallow clone, move-assigned, clone-into, convert from the other data type, source re-checked) and value modes (prescribed 0/1/-1 with all-negative vectors, extreme magnitudes); the filter operation is the first access to the built filter, 4 ops x (once,twice); CSR: all patterns of all shapes <=4x4 (65536 patterns of 4x4) x all row sets x 3 matrix ops (+dense solve), filters rotating through as-built / deep clone / move-assigned and fresh / previously used on another matrix, weak rows with value modes, u32 index type up to 3x3; "
    "UnitFilterBlocked/SlipFilter also as convert() from the other data type and move-assigned over a clear()ed filter, SlipFilter accessors, MeanFilterBlocked/TupleFilter via clone(other), Global::Filter and Global::MeanFilter as clone(mode)/clone(other)/move-assigned/convert(); UnitFilterBlocked<2|3>: 0..4 blocks, all sets, NaN masks; BCSR<2,2|2,3|3,2> all block patterns <=3x3; SlipFilter<2|3>: 0..4 blocks, all sets, 6 normal lists; MeanFilter/MeanFilterBlocked/Global::MeanFilter: n=0..8, 4 weight pairs; "
    "NoneFilter; FilterChain, FilterSequence, TupleFilter, PowerFilter, Global::Filter over all index-set tuples for n<=4 (tuple/power components <=3); 7 entry-free matrix combinations in forked children";
  spec.bounds_thorough = "as quick with n<=14 (unit vectors), CSR 4x5 in addition (all 2^20 patterns, double), blocks 0..5, mean n<=12, combinators n<=5 (tuple/power components <=4)";
  spec.assumptions = {
    "generic backend; reference models in long double (c06_common.hpp); == is numeric equality, 'bitwise' is memcmp",
    "excluded (documented/asserted preconditions): zero normals and non-positive volumes; vectors whose size differs from the filter size; duplicate indices only in the 'add twice' construction (last value counts, as verified for SparseVector in C04)",
    "rows without a stored diagonal entry: filter_mat can only zero the row (counted separately, the unit-diagonal claim is not demanded there)",
    "slip/mean rounding bound: 16(n+2) eps times the magnitude of the operands, error propagation of the reference tracked per entry",
    "excluded - members of the anchor files that do not compile when instantiated and therefore have no behaviour (DESIGN.md 9.5): FilterChain constructor with 3 or more links (3-link chains are assembled through at<i>()), FilterChain::clone(other,mode), PowerFilter::clone(other,mode), FilterSequence::clone(other,mode), MeanFilterBlocked::convert and MeanFilterBlocked::clear",
    "excluded - outside C06: bytes() of the filters except a lower bound for Global::Filter (statistics), permute() of the unit filters (C04 checks SparseVector::permute), MPI branches of Global::MeanFilter beyond the serial communicator (C13), CUDA/MKL back ends"};
  spec.max_samples = 8;
  if(const char* mr = std::getenv("VERIF_MAX_REPORT")) spec.max_report = size_t(atol(mr));
  return verif::run(spec, argc, argv, [&](verif::Ctx& c) {
    unit_vectors<double>(c, "UnitFilter<double>");
    unit_vectors<float>(c, "UnitFilter<float>");
    unit_csr<double>(c, "UnitFilter<double>");
    unit_csr<float>(c, "UnitFilter<float>");
    // index type u32: the other overload set of the Arch kernels
    unit_vectors<double, unsigned int>(c, "UnitFilter<double,u32>");
    unit_csr<double, unsigned int>(c, "UnitFilter<double,u32>", 3);
    more_sections(c);
  });
}
