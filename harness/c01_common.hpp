// Shared helpers of the C01 (mat-vec) and C03 (matrix algebra) harnesses:
// dense long-double oracle, exact / rounding value alphabets, builders of the FEAT containers from a
// dense reference, flat access to every FEAT vector type, bitwise snapshots of operands.
#pragma once
#include <verif.hpp>
#include <kernel/runtime.hpp>
#include <kernel/lafem/dense_vector.hpp>
#include <kernel/lafem/dense_vector_blocked.hpp>
#include <kernel/lafem/tuple_vector.hpp>
#include <kernel/lafem/power_vector.hpp>
#include <kernel/lafem/sparse_matrix_csr.hpp>
#include <kernel/lafem/sparse_matrix_bcsr.hpp>
#include <cmath>
#include <cstring>
#include <limits>
#include <memory>
#include <sstream>
#include <string>
#include <type_traits>
#include <vector>

namespace c01
{
  using namespace FEAT;
  using namespace FEAT::LAFEM;
  typedef long double LD;

  // ------------------------------------------------------------------------------------------ dense reference
  struct DenseRef
  {
    int m = 0, n = 0;
    std::vector<LD> a;             // row major values (0 where not in the pattern)
    std::vector<unsigned char> nz; // pattern (an entry of the pattern may carry any value, also 0)
    DenseRef() {}
    DenseRef(int m_, int n_) : m(m_), n(n_), a(size_t(m_) * size_t(n_), LD(0)), nz(size_t(m_) * size_t(n_), 0) {}
    LD& at(int i, int j) { return a[size_t(i) * size_t(n) + size_t(j)]; }
    LD at(int i, int j) const { return a[size_t(i) * size_t(n) + size_t(j)]; }
    bool has(int i, int j) const { return nz[size_t(i) * size_t(n) + size_t(j)] != 0; }
    void set(int i, int j, LD v) { at(i, j) = v; nz[size_t(i) * size_t(n) + size_t(j)] = 1; }
    int nnz() const { int k = 0; for(auto b : nz) k += b; return k; }
    int row_len(int i) const { int k = 0; for(int j = 0; j < n; ++j) k += has(i, j); return k; }
    std::string str() const
    {
      std::ostringstream o; o << m << "x" << n << "[";
      for(int i = 0; i < m; ++i) { if(i) o << "/"; for(int j = 0; j < n; ++j) o << (has(i, j) ? '1' : '0'); }
      o << "]"; return o.str();
    }
  };

  // ------------------------------------------------------------------------------------------ alphabets
  // alphabet 0 ("exact"): position coded dyadic rationals, every value distinct; all sums/products that occur for
  //   the sizes used here are exactly representable in float and double -> the oracle is bit exact.
  // alphabet 1 ("rounding"): non-representable values of mixed magnitude -> rounding bound of the property.
  // alphabet 2 ("all negative"): the exact alphabet with every matrix / vector entry negative (no sign cancellation, sign tests).
  // alphabet 3 ("extreme"): the exact alphabet with the matrix scaled by 2^-E (denormal entries: E=1030 double, 130 float), x by 2^+X (X=1000 / 120) and y by 2^(X-E);
  //   products and sums are still exact, so == holds, but a kernel that looks at the magnitude of an entry (drop "small" ones) fails.
  static int g_extreme_exp = 1030, g_extreme_xexp = 1000;
  template<typename DT> inline void set_extreme_exp() { g_extreme_exp = std::is_same<DT, float>::value ? 130 : 1030; g_extreme_xexp = std::is_same<DT, float>::value ? 120 : 1000; }
  inline bool alphabet_exact(int alphabet) { return alphabet != 1; }
  inline const char* alphabet_name(int alphabet) { static const char* n[4] = {"exact", "rounding", "all-negative", "extreme-magnitude"}; return n[alphabet]; }
  inline LD aval(int alphabet, int i, int j)
  {
    const LD sgn = ((i + j) & 1) ? LD(-1) : LD(1);
    const LD base = LD(1 + j + 16 * i) / LD(8);
    if(alphabet == 0) return sgn * base;
    if(alphabet == 2) return -base;
    if(alphabet == 3) return sgn * ldexpl(base, -g_extreme_exp);
    static const LD tab[5] = {LD(0.1L), LD(1) / LD(3), LD(3.14159265358979323846264338L), LD(1e-3L), LD(1e3L)};
    return sgn * tab[(i * 7 + j * 3) % 5] * (LD(1) + LD(i) / LD(7));
  }
  inline LD xval(int alphabet, int j)
  {
    const LD sgn = (j & 1) ? LD(-1) : LD(1);
    const LD base = LD(j + 2) / LD(2);
    if(alphabet == 0) return sgn * base;
    if(alphabet == 2) return -base;
    if(alphabet == 3) return sgn * ldexpl(base, g_extreme_xexp);
    static const LD tab[4] = {LD(0.3L), LD(1) / LD(7), LD(2.71828182845904523536L), LD(17.1L)};
    return sgn * tab[j % 4] * (LD(1) + LD(j) / LD(11));
  }
  inline LD yval(int alphabet, int i)
  {
    const LD sgn = (i & 1) ? LD(1) : LD(-1);
    const LD base = LD(3 + 2 * i) / LD(4);
    if(alphabet == 0) return sgn * base;
    if(alphabet == 3) return sgn * ldexpl(base, g_extreme_xexp - g_extreme_exp);
    if(alphabet == 2) return -base;
    static const LD tab[3] = {LD(0.7L), LD(1) / LD(9), LD(123.456L)};
    return sgn * tab[i % 3] * (LD(1) + LD(i) / LD(13));
  }
  // scaling vectors for scale_rows / scale_cols / scaled norms (exact alphabet: small dyadic, distinct, non zero)
  inline LD sval(int alphabet, int i)
  {
    const LD sgn = (i % 3 == 1) ? LD(-1) : LD(1);
    if(alphabet == 2) return -LD(2 + i) / LD(2);
    if(alphabet != 1) return sgn * LD(2 + i) / LD(2);
    static const LD tab[3] = {LD(0.9L), LD(1) / LD(6), LD(41.3L)};
    return sgn * tab[i % 3];
  }

  struct Scalar { LD v; bool dyadic; const char* name; };
  static const int NSCAL = 9;
  static const Scalar scalars[NSCAL] = {
    {LD(0), true, "0"}, {LD(1), true, "1"}, {LD(-1), true, "-1"}, {LD(0.5L), true, "1/2"}, {LD(2), true, "2"},
    {LD(0.3L), false, "0.3"}, {LD(1e-20L), false, "1e-20"}, {LD(-1e-20L), false, "-1e-20"}, {LD(1e-300L), false, "1e-300"}};

  /// dense matrix for a 0/1 pattern given as bit string (bit i*n+j), values coded on the *global* position (i0+i, j0+j)
  inline DenseRef dense_from_bits(int m, int n, uint64_t bits, int alphabet, int i0 = 0, int j0 = 0)
  {
    DenseRef d(m, n);
    for(int i = 0; i < m; ++i) for(int j = 0; j < n; ++j)
      if((bits >> (i * n + j)) & 1u) d.set(i, j, aval(alphabet, i0 + i, j0 + j));
    return d;
  }

  // ------------------------------------------------------------------------------------------ flat vector access
  template<typename DT, typename IT> size_t vlen(const DenseVector<DT, IT>& v) { return size_t(v.size()); }
  template<typename DT, typename IT, int BS> size_t vlen(const DenseVectorBlocked<DT, IT, BS>& v) { return size_t(v.size()) * size_t(BS); }
  template<typename DT, typename IT> DT* vraw(DenseVector<DT, IT>& v) { return v.size() ? v.elements() : nullptr; }
  template<typename DT, typename IT> const DT* vraw(const DenseVector<DT, IT>& v) { return v.size() ? v.elements() : nullptr; }
  template<typename DT, typename IT, int BS> DT* vraw(DenseVectorBlocked<DT, IT, BS>& v) { return v.size() ? v.template elements<Perspective::pod>() : nullptr; }
  template<typename DT, typename IT, int BS> const DT* vraw(const DenseVectorBlocked<DT, IT, BS>& v) { return v.size() ? v.template elements<Perspective::pod>() : nullptr; }

  // leaf vectors
  template<typename DT, typename IT, typename T> void vget(const DenseVector<DT, IT>& v, std::vector<T>& out)
  { const DT* p = vraw(v); for(size_t i = 0; i < vlen(v); ++i) out.push_back(T(p[i])); }
  template<typename DT, typename IT, int BS, typename T> void vget(const DenseVectorBlocked<DT, IT, BS>& v, std::vector<T>& out)
  { const DT* p = vraw(v); for(size_t i = 0; i < vlen(v); ++i) out.push_back(T(p[i])); }
  template<typename DT, typename IT> void vput(DenseVector<DT, IT>& v, const std::vector<LD>& f, size_t& o)
  { DT* p = vraw(v); for(size_t i = 0; i < vlen(v); ++i) p[i] = DT(f.at(o++)); }
  template<typename DT, typename IT, int BS> void vput(DenseVectorBlocked<DT, IT, BS>& v, const std::vector<LD>& f, size_t& o)
  { DT* p = vraw(v); for(size_t i = 0; i < vlen(v); ++i) p[i] = DT(f.at(o++)); }
  // meta vectors (forward declarations: the overloads are mutually recursive)
  template<typename F, typename T> void vget(const TupleVector<F>& v, std::vector<T>& out);
  template<typename F, typename G, typename... R, typename T> void vget(const TupleVector<F, G, R...>& v, std::vector<T>& out);
  template<typename F> void vput(TupleVector<F>& v, const std::vector<LD>& f, size_t& o);
  template<typename F, typename G, typename... R> void vput(TupleVector<F, G, R...>& v, const std::vector<LD>& f, size_t& o);
  template<typename S, int n, typename T> void vget(const PowerVector<S, n>& v, std::vector<T>& out);
  template<typename S, int n> void vput(PowerVector<S, n>& v, const std::vector<LD>& f, size_t& o);
  template<typename F, typename T> void vget(const TupleVector<F>& v, std::vector<T>& out) { vget(v.first(), out); }
  template<typename F, typename G, typename... R, typename T> void vget(const TupleVector<F, G, R...>& v, std::vector<T>& out) { vget(v.first(), out); vget(v.rest(), out); }
  template<typename F> void vput(TupleVector<F>& v, const std::vector<LD>& f, size_t& o) { vput(v.first(), f, o); }
  template<typename F, typename G, typename... R> void vput(TupleVector<F, G, R...>& v, const std::vector<LD>& f, size_t& o) { vput(v.first(), f, o); vput(v.rest(), f, o); }
  template<typename S, int n, typename T> void vget(const PowerVector<S, n>& v, std::vector<T>& out)
  { vget(v.first(), out); if constexpr(n > 1) vget(v.rest(), out); }
  template<typename S, int n> void vput(PowerVector<S, n>& v, const std::vector<LD>& f, size_t& o)
  { vput(v.first(), f, o); if constexpr(n > 1) vput(v.rest(), f, o); }

  // address of the first scalar of a vector
  template<typename DT, typename IT> const void* rawptr(const DenseVector<DT, IT>& v) { return vraw(v); }
  template<typename DT, typename IT, int BS> const void* rawptr(const DenseVectorBlocked<DT, IT, BS>& v) { return vraw(v); }
  template<typename V> const void* rawptr(const V& v) { return rawptr(v.first()); } // meta vectors: first leaf

  template<typename V> struct DataOf { typedef typename V::DataType type; };
  template<typename V> std::vector<typename DataOf<V>::type> vflat(const V& v) { std::vector<typename DataOf<V>::type> o; vget(v, o); return o; }
  template<typename V> void vfill(V& v, const std::vector<LD>& f) { size_t o = 0; vput(v, f, o); if(o != f.size()) { fprintf(stderr, "vfill: size mismatch %zu != %zu\n", o, f.size()); abort(); } }
  template<typename T> bool same_bits(const std::vector<T>& a, const std::vector<T>& b)
  { return a.size() == b.size() && (a.empty() || std::memcmp(a.data(), b.data(), a.size() * sizeof(T)) == 0); }

  // ------------------------------------------------------------------------------------------ container hashing
  /// hash of every array and scalar of a leaf container (bitwise snapshot of "the matrix arrays")
  template<typename DT, typename IT> void hash_container(const Container<DT, IT>& ct, verif::Hash& h)
  {
    for(size_t i = 0; i < ct._elements.size(); ++i) { h.pod(ct._elements_size.at(i)); if(ct._elements[i]) h.bytes(ct._elements[i], size_t(ct._elements_size.at(i)) * sizeof(DT)); }
    for(size_t i = 0; i < ct._indices.size(); ++i) { h.pod(ct._indices_size.at(i)); if(ct._indices[i]) h.bytes(ct._indices[i], size_t(ct._indices_size.at(i)) * sizeof(IT)); }
    for(auto s : ct._scalar_index) h.pod(s);
  }
  template<typename DT, typename IT> uint64_t hash_of(const Container<DT, IT>& ct) { verif::Hash h; hash_container(ct, h); return h.get(); }

  // ------------------------------------------------------------------------------------------ builders
  /// CSR from the dense reference. empty_rep selects the representation of a pattern without entries:
  /// 0: SparseMatrixCSR(rows, cols) (no arrays), 1: SparseMatrixCSR(rows, cols, 0) with a zeroed row pointer array.
  template<typename DT, typename IT>
  SparseMatrixCSR<DT, IT> build_csr(const DenseRef& d, int empty_rep = 0)
  {
    const Index nnz = Index(d.nnz());
    if(nnz == 0)
    {
      if(empty_rep == 0 || d.m == 0 || d.n == 0) return SparseMatrixCSR<DT, IT>(Index(d.m), Index(d.n));
      SparseMatrixCSR<DT, IT> a(Index(d.m), Index(d.n), Index(0));
      for(int i = 0; i <= d.m; ++i) a.row_ptr()[i] = IT(0);
      return a;
    }
    DenseVector<DT, IT> val(nnz); DenseVector<IT, IT> ci(nnz); DenseVector<IT, IT> rp(Index(d.m + 1));
    Index k = 0; rp.elements()[0] = IT(0);
    for(int i = 0; i < d.m; ++i)
    {
      for(int j = 0; j < d.n; ++j) if(d.has(i, j)) { val.elements()[k] = DT(d.at(i, j)); ci.elements()[k] = IT(j); ++k; }
      rp.elements()[i + 1] = IT(k);
    }
    return SparseMatrixCSR<DT, IT>(Index(d.m), Index(d.n), ci, val, rp);
  }

  /// BCSR<BH,BW> from a *scalar* dense reference of size (mb*BH) x (nb*BW) and a block pattern (bit I*nb+J);
  /// every entry of a stored block is taken from d (d must be zero outside of the stored blocks).
  template<typename DT, typename IT, int BH, int BW>
  SparseMatrixBCSR<DT, IT, BH, BW> build_bcsr(const DenseRef& d, int mb, int nb, uint64_t bbits, int empty_rep = 0)
  {
    Index nblk = 0; for(int q = 0; q < mb * nb; ++q) nblk += Index((bbits >> q) & 1u);
    if(nblk == 0)
    {
      if(empty_rep == 0 || mb == 0 || nb == 0) return SparseMatrixBCSR<DT, IT, BH, BW>(Index(mb), Index(nb));
      SparseMatrixBCSR<DT, IT, BH, BW> a(Index(mb), Index(nb), Index(0));
      for(int i = 0; i <= mb; ++i) a.row_ptr()[i] = IT(0);
      return a;
    }
    DenseVector<DT, IT> val(nblk * Index(BH * BW)); DenseVector<IT, IT> ci(nblk); DenseVector<IT, IT> rp(Index(mb + 1));
    Index k = 0; rp.elements()[0] = IT(0);
    for(int I = 0; I < mb; ++I)
    {
      for(int J = 0; J < nb; ++J) if((bbits >> (I * nb + J)) & 1u)
      {
        for(int bi = 0; bi < BH; ++bi) for(int bj = 0; bj < BW; ++bj)
          val.elements()[k * Index(BH * BW) + Index(bi * BW + bj)] = DT(d.at(I * BH + bi, J * BW + bj));
        ci.elements()[k] = IT(J); ++k;
      }
      rp.elements()[I + 1] = IT(k);
    }
    return SparseMatrixBCSR<DT, IT, BH, BW>(Index(mb), Index(nb), ci, val, rp);
  }

  /// scalar dense reference of a block matrix: all entries of the stored blocks are in the pattern
  inline DenseRef dense_from_blocks(int mb, int nb, int bh, int bw, uint64_t bbits, int alphabet)
  {
    DenseRef d(mb * bh, nb * bw);
    for(int I = 0; I < mb; ++I) for(int J = 0; J < nb; ++J) if((bbits >> (I * nb + J)) & 1u)
      for(int bi = 0; bi < bh; ++bi) for(int bj = 0; bj < bw; ++bj)
        d.set(I * bh + bi, J * bw + bj, aval(alphabet, I * bh + bi, J * bw + bj));
    return d;
  }

  template<typename DT> inline const char* dtname() { return std::is_same<DT, float>::value ? "float" : "double"; }
  template<typename IT> inline const char* itname() { return sizeof(IT) == 4 ? "u32" : "u64"; }

  // ------------------------------------------------------------------------------------------ the apply check
  struct ApplyCase
  {
    bool transposed = false;
    int mode = 0;        // 0: r := A x      1: r := y + alpha A x (r, y distinct)      2: same with r aliasing y
    int alpha = 1;       // index into scalars (modes 1, 2)
    int alphabet = 0;    // 0 exact, 1 rounding, 2 all negative, 3 extreme magnitude
    int scenario = 0;    // see Scenario
    std::string name() const
    {
      std::string s = transposed ? "apply_transposed" : "apply";
      if(mode == 0) return s + "(r,x)";
      return s + "(r,x,y,alpha)" + (mode == 2 ? " r==y" : "");
    }
    std::string str() const
    {
      std::string s = name();
      if(mode) s += std::string(" alpha=") + scalars[alpha].name;
      s += std::string(" alphabet=") + alphabet_name(alphabet);
      static const char* sn[9] = {"", " scenario=history(other calls on the same matrix first)", " scenario=sub-range-views", " scenario=on-deep-clone", " scenario=on-shallow-clone",
        " scenario=on-weak-clone", " scenario=on-moved-object", " scenario=on-index-type-round-trip", " scenario=history+shallow-clone+views"};
      s += sn[scenario];
      return s;
    }
  };

  /// scenarios (lessons 2,3,6,7): the operation as first access on a fresh object / after other calls / on derived objects / on sub-range views
  enum Scenario { S_BASE = 0, S_HIST, S_VIEW, S_CLONE_DEEP, S_CLONE_SHALLOW, S_CLONE_WEAK, S_MOVE, S_CONVERT, S_COMBO, S_COUNT };
  struct Variant { int alphabet, scenario; };
  /// the (alphabet, scenario) pairs enumerated per pattern: all four alphabets on the fresh object, every scenario with the exact alphabet
  inline std::vector<Variant> variants(bool full)
  {
    std::vector<Variant> v = {{0, S_BASE}, {1, S_BASE}, {2, S_BASE}, {3, S_BASE}};
    if(full) for(int sc = S_HIST; sc < S_COUNT; ++sc) v.push_back({0, sc});
    else { v.push_back({0, S_COMBO}); }
    return v;
  }
  inline int derive_kind(int scenario) { return scenario == S_COMBO ? S_CLONE_SHALLOW : (scenario >= S_CLONE_DEEP && scenario <= S_CONVERT ? scenario : 0); }

  /// derived object of a leaf container (lesson 3). The source stays alive and must be unchanged afterwards.
  template<typename M, typename MOther>
  M derive_matrix(const M& src, int kind)
  {
    switch(kind)
    {
    case S_CLONE_DEEP: return src.clone(CloneMode::Deep);
    case S_CLONE_SHALLOW: return src.clone(CloneMode::Shallow);
    case S_CLONE_WEAK: return src.clone(CloneMode::Weak);
    case S_MOVE: { M tmp = src.clone(CloneMode::Deep); M moved(std::move(tmp)); M target; target = std::move(moved); return target; }
    case S_CONVERT: { MOther o; o.convert(src); M back; back.convert(o); return back; }
    default: return src.clone(CloneMode::Shallow);
    }
  }
  template<typename IT> struct OtherIndex { typedef typename std::conditional<sizeof(IT) == 8, std::uint32_t, std::uint64_t>::type type; };

  /// all (transposed, mode, alpha) combinations
  inline std::vector<ApplyCase> apply_cases(bool with_transposed, bool with_plain = true)
  {
    std::vector<ApplyCase> v;
    for(int t = 0; t < (with_transposed ? 2 : 1); ++t)
    {
      if(with_plain) { ApplyCase a; a.transposed = (t == 1); a.mode = 0; v.push_back(a); }
      for(int mode = 1; mode <= 2; ++mode) for(int al = 0; al < NSCAL; ++al)
      { ApplyCase a; a.transposed = (t == 1); a.mode = mode; a.alpha = al; v.push_back(a); }
    }
    return v;
  }

  /**
   * Runs one apply on the real container and compares with the dense oracle.
   *  VOut: type of r and y, VIn: type of x (already allocated with the right sizes by the caller)
   *  call(mode, r, x, y, alpha): executes the FEAT operation (mode 0: apply(r,x); else apply(r,x,y,alpha), y may be r)
   *  mhash(): bitwise hash of all matrix arrays
   * Returns true if no check failed.
   */
  template<typename V> struct IsDenseVector : std::false_type {};
  template<typename DT, typename IT> struct IsDenseVector<DenseVector<DT, IT>> : std::true_type {};

  /// sub-range view of a DenseVector inside a larger vector whose other entries are guards (lessons 2, 7)
  template<typename V>
  struct ViewOf
  {
    std::unique_ptr<V> big, view; std::vector<typename DataOf<V>::type> guard;
    static constexpr int pre = 2, post = 3;
    bool make(int n)
    {
      if constexpr(IsDenseVector<V>::value)
      {
        if(n <= 0) return false;
        big.reset(new V(Index(n + pre + post)));
        std::vector<LD> m; for(int i = 0; i < n + pre + post; ++i) m.push_back(LD(7777) + LD(i) / LD(4));
        vfill(*big, m);
        view.reset(new V(*big, Index(n), Index(pre)));
        return true;
      }
      else { (void)n; return false; }
    }
    /// guards untouched?
    bool guards_ok(int n) const
    {
      if(!big) return true;
      const auto f = vflat(*big);
      for(int i = 0; i < n + pre + post; ++i) if(i < pre || i >= pre + n) { if(!(LD(f[size_t(i)]) == LD(7777) + LD(i) / LD(4))) return false; }
      return true;
    }
  };

  template<typename VOut, typename VY, typename VIn, typename Call, typename MHash>
  bool check_apply(verif::Ctx& c, const std::string& kind, const DenseRef& D, const ApplyCase& ac,
    VOut& r0, VY& y0, VIn& x0, Call&& call, MHash&& mhash)
  {
    typedef typename DataOf<VOut>::type DT;
    const int nout = ac.transposed ? D.n : D.m, nin = ac.transposed ? D.m : D.n;
    const std::string key = kind + "." + ac.name();
    const bool hist = (ac.scenario == S_HIST || ac.scenario == S_COMBO);
    const bool want_view = (ac.scenario == S_VIEW || ac.scenario == S_COMBO);
    bool ok = true;
    if(vflat(x0).size() != size_t(nin) || vflat(r0).size() != size_t(nout))
    { c.fail(key + " vector-length", "harness/create_vector length mismatch"); return false; }
    // ---- optional sub-range views with guard entries around them
    ViewOf<VOut> rv; ViewOf<VY> yv; ViewOf<VIn> xv;
    const bool view = want_view && rv.make(nout) && yv.make(nout) && xv.make(nin);
    VOut& r = view ? *rv.view : r0; VY& y = view ? *yv.view : y0; VIn& x = view ? *xv.view : x0;
    if(view) c.count("sub_range_view_cases");
    // ---- optional history: other calls on the same matrix object with other operands first (lessons 2, 6)
    if(hist)
    {
      VOut r2 = r0.clone(CloneMode::Deep); VY y2 = y0.clone(CloneMode::Deep); VIn x2 = x0.clone(CloneMode::Deep);
      std::vector<LD> xf2, yf2; for(int j = 0; j < nin; ++j) xf2.push_back(xval(0, j + 3)); for(int i = 0; i < nout; ++i) yf2.push_back(yval(0, i + 5));
      vfill(x2, xf2); vfill(y2, yf2); vfill(r2, yf2);
      call(0, r2, x2, y2, DT(1));
      call(1, r2, x2, y2, DT(2));
      if constexpr(std::is_same<VOut, VY>::value) call(2, r2, x2, r2, DT(-1));
      c.count("history_calls", 3);
    }
    // operands
    std::vector<LD> xf, yf, gf;
    for(int j = 0; j < nin; ++j) xf.push_back(xval(ac.alphabet, j));
    for(int i = 0; i < nout; ++i) { yf.push_back(yval(ac.alphabet, i)); gf.push_back(std::numeric_limits<LD>::quiet_NaN()); }
    // round the operands to DT first: the oracle works on what the kernel really sees
    for(auto& v : xf) v = LD(DT(v));
    for(auto& v : yf) v = LD(DT(v));
    vfill(x, xf);
    if(ac.mode == 1) { vfill(y, yf); vfill(r, gf); }
    else if(ac.mode == 2) vfill(r, yf);
    else vfill(r, gf);
    const auto xs = vflat(x);
    const auto ys = vflat(y);
    const uint64_t mh = mhash();
    const LD alpha = (ac.mode == 0) ? LD(1) : LD(DT(scalars[ac.alpha].v));
    // ---- the real code
    auto invoke = [&]() -> bool {
      if constexpr(std::is_same<VOut, VY>::value) call(ac.mode, r, x, (ac.mode == 2 ? r : y), DT(alpha));
      else
      {
        if(ac.mode == 2) { c.fail(key + " harness", "r==y needs equal types"); return false; }
        call(ac.mode, r, x, y, DT(alpha));
      }
      return true; };
    if(!invoke()) return false;
    // observation (not a violation of C01): the result vector was re-bound to the memory of y
    const bool rebound = (ac.mode == 1 && nout > 0 && (const void*)rawptr(r) == (const void*)rawptr(y));
    if(rebound) c.count("observation:" + kind.substr(0, kind.find_first_of("<[ ")) + " apply early-out aliases r to y");
    // ---- compare
    const auto rf = vflat(r);
    if(!c.check(rf.size() == size_t(nout), key + " result-length", "result vector changed its length")) return false;
    const bool exact = alphabet_exact(ac.alphabet) && (ac.mode == 0 || scalars[ac.alpha].dyadic);
    const LD eps = LD(std::numeric_limits<DT>::epsilon());
    for(int i = 0; i < nout && ok; ++i)
    {
      LD sum = 0, asum = 0; int len = 0;
      for(int j = 0; j < nin; ++j)
      {
        const LD a = ac.transposed ? D.at(j, i) : D.at(i, j);
        const bool has = ac.transposed ? D.has(j, i) : D.has(i, j);
        if(!has) continue;
        const LD ad = LD(DT(a));
        sum += ad * xf[size_t(j)]; asum += fabsl(ad * xf[size_t(j)]); ++len;
      }
      const LD yi = (ac.mode == 0) ? LD(0) : yf[size_t(i)];
      const LD expect = yi + alpha * sum;
      const LD got = LD(rf[size_t(i)]);
      if(exact)
      {
        if(!(got == LD(DT(expect))))
        {
          ok = false;
          std::ostringstream o; o.precision(17); o << "component " << i << ": got " << (double)got << " expected exactly " << (double)expect;
          c.fail(key, o.str());
        }
      }
      else
      {
        const LD bound = LD(8 * (len + 2)) * eps * (asum * std::max(LD(1), fabsl(alpha)) + fabsl(yi)) ;
        if(!(fabsl(got - expect) <= bound))
        {
          ok = false;
          std::ostringstream o; o.precision(17);
          o << "component " << i << ": got " << (double)got << " expected " << (double)expect << " bound " << (double)bound;
          c.fail(key + " (rounding)", o.str());
        }
      }
    }
    // ---- inputs unmodified
    if(!same_bits(xs, vflat(x))) { ok = false; c.fail(key + " x-modified", "operand x was modified"); }
    if(ac.mode == 1 && !same_bits(ys, vflat(y))) { ok = false; c.fail(key + " y-modified", "operand y was modified"); }
    if(mhash() != mh) { ok = false; c.fail(key + " matrix-modified", "matrix arrays were modified"); }
    // ---- re-invocation on the already filled result (lesson 2): must reproduce the first result bit by bit
    if(ok && !rebound)
    {
      if(ac.mode == 2) vfill(r, yf);
      if(invoke())
      {
        c.count("re_invocations");
        if(!same_bits(rf, vflat(r))) { ok = false; c.fail(key + " re-invocation", "second call on the same objects (result vector holding the first result) gives a different result"); }
        if(mhash() != mh || !same_bits(xs, vflat(x))) { ok = false; c.fail(key + " re-invocation operand-modified", "second call modified an operand"); }
      }
    }
    if(view && !(rv.guards_ok(nout) && yv.guards_ok(nout) && xv.guards_ok(nin)))
    { ok = false; c.fail(key + " view-guards", "entries outside of the sub-range views were written"); }
    return ok;
  }
} // namespace c01
