// C11 (fault enumeration part) -- malformed mesh / INI input is rejected without crashing.
//
// Exhaustive single-fault enumeration (every truncation, every byte position x byte alphabet, every byte deletion,
// every line deletion/duplication, every numeric token x mutation set, every declared count/dimension/index
// violated, every element block deleted/duplicated) over the hand-minimised seeds in /verif/spec/mesh_seeds and
// /verif/spec/ini_seeds. Built and run in the 'asan' variant: the case bodies run in-process in the forked
// workers of the runner, so an abort (XASSERT), a sanitizer report, a SEGV or an alarm (hang) kills the worker and
// is reported by the runner as a 'crash' violation for exactly that case.
#include "c11_common.hpp"
#include "c11_faultgen.hpp"

#include <new>
#include <unistd.h>
#include <sys/mman.h>
#include <csignal>
#include <cerrno>
#include <cstring>
#include <sys/wait.h>
#include <sys/stat.h>
#include <fcntl.h>
#include <set>

// ------------------------------------------------------------------------------------------------
// A mutated count may ask for 2^63 entries. Without sanitizer operator new throws std::bad_alloc; ASan's operator new
// cannot throw and aborts instead. To keep the behaviour of the uninstrumented program, operator new is replaced by
// one that throws for requests above 512 MB and otherwise uses (ASan's) malloc, so heap checking stays active.
// ------------------------------------------------------------------------------------------------
static const std::size_t c11_alloc_cap = std::size_t(512) << 20;
void* operator new(std::size_t n) { if(n > c11_alloc_cap) throw std::bad_alloc(); void* p = std::malloc(n ? n : 1); if(!p) throw std::bad_alloc(); return p; }
void* operator new[](std::size_t n) { return operator new(n); }
void* operator new(std::size_t n, const std::nothrow_t&) noexcept { if(n > c11_alloc_cap) return nullptr; return std::malloc(n ? n : 1); }
void* operator new[](std::size_t n, const std::nothrow_t&) noexcept { if(n > c11_alloc_cap) return nullptr; return std::malloc(n ? n : 1); }
void operator delete(void* p) noexcept { std::free(p); }
void operator delete[](void* p) noexcept { std::free(p); }
void operator delete(void* p, std::size_t) noexcept { std::free(p); }
void operator delete[](void* p, std::size_t) noexcept { std::free(p); }
void operator delete(void* p, const std::nothrow_t&) noexcept { std::free(p); }
void operator delete[](void* p, const std::nothrow_t&) noexcept { std::free(p); }
extern "C" const char* __asan_default_options() { return "allocator_may_return_null=1:detect_leaks=0"; }
extern "C" const char* __ubsan_default_options() { return "print_stacktrace=1"; }

#ifdef VERIF_COV
extern "C" void __gcov_reset(void);
#endif

using namespace c11;

namespace
{
  std::string itos_(long long v) { return std::to_string(v); }
  // ------------------------------------------------------------------------------------------------
  // Execution of the case bodies. A fork per case costs ~6 ms under ASan, so the worker (which never executes library
  // code itself) forks a *runner child at the case it needs a verdict for*; the child continues the very same
  // enumeration from that point in-process, appending one verdict per case to a shared log, and exits at the end
  // of the enumeration. The worker waits, then goes on enumerating and consumes the verdicts. If the child died
  // (abort / sanitizer report / SEGV / 120 s alarm) the case it was working on gets the verdict 'crash' or 'hang'
  // with the signal, and a fresh child is forked at the next case. So: one fork per crash, exact attribution,
  // and every child starts from the clean state of the worker.
  // ------------------------------------------------------------------------------------------------
  struct Verdict
  {
    int kind = K_UNKNOWN, parses = 0;
    std::vector<std::pair<std::string, std::string>> fails;   // (failure kind, message); the parent builds the key
  };

  struct Log
  {
    struct Hdr { volatile long cur; volatile size_t used; volatile long count; volatile int phase; };
    char* base = nullptr;
    size_t cap = 0;
    pid_t owner = 0;
    size_t rpos = sizeof(Hdr);   // read position (worker)
    bool child = false;          // this process is a runner child
    bool have_crash = false; long crash_idx = -1; int crash_sig = 0; int crash_phase = 0;
    std::string crash_stderr;
    long cov_cases = 0;
    std::string errfile;
    int errfd = -1;

    Hdr* hdr() { return reinterpret_cast<Hdr*>(base); }
    void init()
    {
      if(base != nullptr && owner == getpid()) return;
      if(child) return;
      cap = size_t(96) << 20;
      base = static_cast<char*>(mmap(nullptr, cap, PROT_READ | PROT_WRITE, MAP_SHARED | MAP_ANONYMOUS | MAP_NORESERVE, -1, 0));
      owner = getpid();
      hdr()->cur = -1; hdr()->used = sizeof(Hdr); hdr()->count = 0;
      rpos = sizeof(Hdr);
      const char* sc = std::getenv("VERIF_SCRATCH");
      const char* rt = std::getenv("VERIF_ROOT");
      std::string dir = sc ? std::string(sc) : (std::string(rt ? rt : "/verif") + "/build/scratch");
      dir += "/c11_faults";
      mkdir(dir.c_str(), 0777);
      errfile = dir + "/stderr." + std::to_string((long)getpid()) + ".txt";
    }
    // ---- child side
    void put(const void* p, size_t n) { size_t u = hdr()->used; if(u + n > cap) _exit(97); std::memcpy(base + u, p, n); hdr()->used = u + n; }
    void put_str(const std::string& s) { uint32_t n = uint32_t(s.size()); put(&n, 4); put(s.data(), n); }
    void append(long idx, const Verdict& v)
    {
      put(&idx, sizeof idx); put(&v.kind, 4); put(&v.parses, 4);
      uint32_t nf = uint32_t(v.fails.size()); put(&nf, 4);
      for(auto& f : v.fails) { put_str(f.first); put_str(f.second); }
      hdr()->count = hdr()->count + 1;   // the entry becomes visible only now
    }
    void child_begin_case(long idx)
    {
#ifdef VERIF_COV
      // coverage audit: a child that dies later would lose its counters
      if((++cov_cases % 400) == 0) { __gcov_dump(); __gcov_reset(); }
#endif
      hdr()->cur = idx;
      hdr()->phase = 0; phase_ptr() = &hdr()->phase; phase_base() = 0;
      if(errfd >= 0) { if(ftruncate(errfd, 0) != 0) {} lseek(errfd, 0, SEEK_SET); }
      alarm(120);
    }
    void child_setup()
    {
      child = true;
      errfd = open(errfile.c_str(), O_WRONLY | O_CREAT | O_TRUNC | O_APPEND, 0666);
      if(errfd >= 0) dup2(errfd, 2);
    }
    // ---- worker side
    long consumed = 0;
    bool peek_idx(long& idx) { if(consumed >= hdr()->count) return false; std::memcpy(&idx, base + rpos, sizeof idx); return true; }
    void get(void* p, size_t n) { std::memcpy(p, base + rpos, n); rpos += n; }
    std::string get_str() { uint32_t n; get(&n, 4); std::string s(base + rpos, n); rpos += n; return s; }
    Verdict take()
    {
      Verdict v; long idx; get(&idx, sizeof idx); get(&v.kind, 4); get(&v.parses, 4);
      uint32_t nf; get(&nf, 4);
      for(uint32_t i = 0; i < nf; ++i) { std::string k = get_str(); std::string m = get_str(); v.fails.emplace_back(k, m); }
      ++consumed;
      return v;
    }
    std::string read_stderr()
    {
      std::string t; if(!read_file(errfile, t)) return std::string();
      if(t.size() > 60000) t.resize(60000);
      return t;
    }
  };
  Log g_log;

  const char* signame(int s) { return s == SIGABRT ? "SIGABRT (assertion / sanitizer report)" : s == SIGSEGV ? "SIGSEGV" : s == SIGALRM ? "SIGALRM (no termination within 120 s)" : s == SIGBUS ? "SIGBUS" : s == SIGFPE ? "SIGFPE" : "signal"; }

  /// maps (failure kind, message, stderr of a crashed child) to a key; empty = use the default "<key> :: <kind>"
  typedef std::function<std::string(const std::string&, const std::string&, const std::string&)> Rekey;

  void replay_verdict(verif::Ctx& c, const Verdict& v, const std::string& key, const std::string& family, const Rekey& rekey)
  {
    c.outcome(family + " -> " + kind_name(Kind(v.kind)));
    c.count("parses", uint64_t(v.parses));
    if(v.kind == K_OK) c.count("accepted");
    else if(v.kind == K_RESOURCE) c.count("rejected_resource");
    else if(documented(Kind(v.kind))) c.count("rejected_documented");
    for(auto& f : v.fails)
    {
      std::string k = rekey ? rekey(f.first, f.second, std::string()) : std::string();
      c.fail(k.empty() ? key + " :: " + f.first : k, k.empty() ? f.second : "[" + f.first + "] " + f.second);
    }
  }

  /// runs exec for the current case (c.want() was true, c.desc was set)
  void dispatch(verif::Ctx& c, const std::string& key, const std::string& family, const std::function<std::string()>& what, const std::function<void(Verdict&)>& exec, const Rekey& rekey)
  {
    const long idx = c.index();
    g_log.init();
    if(g_log.child)
    {
      g_log.child_begin_case(idx);
      Verdict v; exec(v);
      alarm(0);
      g_log.append(idx, v);
      return;
    }
    for(int attempt = 0; attempt < 3; ++attempt)
    {
      long have = -1;
      if(g_log.peek_idx(have) && have == idx) { Verdict v = g_log.take(); replay_verdict(c, v, key, family, rekey); return; }
      if(g_log.have_crash && g_log.crash_idx == idx)
      {
        g_log.have_crash = false;
        const int sig = g_log.crash_sig;
        const std::string kind = (sig == SIGALRM ? "hang" : "crash");
        c.outcome(family + " -> " + (sig > 0 ? signame(sig) : "abnormal exit"));
        // first lines of the child's stderr that identify the cause
        std::string cause;
        {
          std::istringstream es(g_log.crash_stderr); std::string ln; int n = 0;
          while(std::getline(es, ln) && n < 6) { if(ln.find("ERROR") != std::string::npos || ln.find("runtime error") != std::string::npos || ln.find("Message") != std::string::npos || ln.find("Function") != std::string::npos || ln.find("FATAL") != std::string::npos || ln.find("    #0") != std::string::npos || ln.find("    #1") != std::string::npos) { cause += printable(ln, 260) + " / "; ++n; } }
        }
        const char* phn[] = {"before parsing", "read_root_markup", "Scanner::scan (parsers)", "MeshNodeLinker::execute", "MeshFileWriter::write", "canon", "destructors"};
        const int ph = g_log.crash_phase % 10;
        const std::string where = std::string(g_log.crash_phase >= 10 ? "re-parse of the written text, " : "first parse, ") + (ph >= 0 && ph < 7 ? phn[ph] : "?");
        std::string k = rekey ? rekey(kind, "phase=" + itos_(g_log.crash_phase), g_log.crash_stderr) : std::string();
        c.fail(k.empty() ? key + " :: " + kind : k, std::string(k.empty() ? "" : "[" + kind + "] ") + std::string("parser died with ") + (sig > 0 ? signame(sig) : "exit code") + " (" + itos_(sig) + ") in [" + where + "] on: " + what() + " | stderr: " + cause);
        return;
      }
      // no verdict yet: fork a runner child that starts with this case
      fflush(stdout); fflush(stderr);
      g_log.hdr()->cur = -1;
      pid_t p = fork();
      if(p < 0) { c.fail("machinery :: fork", "fork failed"); return; }
      if(p == 0)
      {
        g_log.child_setup();
        g_log.child_begin_case(idx);
        Verdict v; exec(v);
        alarm(0);
        g_log.append(idx, v);
        return; // continue the enumeration in the child
      }
      c.count("runner_children");
      int st = 0;
      // the runner child works through many cases while this worker stays at the current one: keep the runner's watchdog informed
      for(;;)
      {
        pid_t w = waitpid(p, &st, WNOHANG);
        if(w == p) break;
        if(w < 0 && errno != EINTR) break;
        c.heartbeat();
        usleep(20000);
      }
      if(WIFSIGNALED(st)) { g_log.have_crash = true; g_log.crash_idx = g_log.hdr()->cur; g_log.crash_sig = WTERMSIG(st); g_log.crash_phase = g_log.hdr()->phase; g_log.crash_stderr = g_log.read_stderr(); }
      else if(WIFEXITED(st) && WEXITSTATUS(st) != 0) { g_log.have_crash = true; g_log.crash_idx = g_log.hdr()->cur; g_log.crash_sig = -WEXITSTATUS(st); g_log.crash_phase = g_log.hdr()->phase; g_log.crash_stderr = g_log.read_stderr(); }
    }
    c.fail("machinery :: no verdict", "runner child produced no verdict for this case");
  }

  // ------------------------------------------------------------------------------------------------
  // Known defect classes that the coordinator recorded as findings (not repaired). The key of a class carries no " :: "
  // because the runner cuts the case key of a known_findings.txt line at the first " :: "; the outcome kind
  // (crash / accepted / rewrite-rejected) is part of the message. A failing case is filed under the
  // fixed key of a class only if BOTH hold: (a) an independent analysis of the mutated *text* shows that it is an
  // instance of the class, (b) the observed failure carries the signature of that defect (function name in the
  // sanitizer / assertion output of the crashed child, or the kind of the failure). Everything else keeps its own key.
  //  F3  <Attribute dim="d"> with int(d) <= 0 (d = -1, 2^31, 2^63 ...)   -> XASSERT in AttributeSet ctor (abort)
  //  F4  <Mapping> target index outside the root mesh / mesh part with deducted topology that does not contain the
  //      vertices of its entities -> OOB in Intern::IndexSetFiller (topology="parent"), or silently accepted, or
  //      accepted and written with out-of-range vertex indices that the reader then rejects
  //  F5  <Bezier> without <Points>, or with more than one <Points>/<Params> -> writer indexes an empty deque /
  //      writes a size that the reader rejects
  //  F8  <SurfaceMesh> with a degenerate triangle or an edge in more than two triangles -> XABORTM in FacetNeighbors
  // ------------------------------------------------------------------------------------------------
  struct Diag { bool f3 = false, f4_range = false, f4_closure = false, f5 = false, f8 = false; };

  bool lenient_u64(const std::string& s0, unsigned long long& v)
  {
    // what 'istream >> unsigned long' reads: optional sign, digits; "-1" wraps
    std::string s = trim_ws(s0);
    size_t i = 0; bool neg = false;
    if(i < s.size() && (s[i] == '+' || s[i] == '-')) { neg = (s[i] == '-'); ++i; }
    if(i >= s.size() || !std::isdigit((unsigned char)s[i])) return false;
    unsigned long long r = 0; bool ovf = false;
    for(; i < s.size() && std::isdigit((unsigned char)s[i]); ++i) { unsigned long long d = (unsigned long long)(s[i] - '0'); if(r > (~0ull - d) / 10ull) ovf = true; r = r * 10ull + d; }
    if(ovf) return false;
    v = neg ? (0ull - r) : r;
    return true;
  }

  Diag diagnose(const std::string& text)
  {
    Diag d;
    SeedModel m; m.text = text; m.analyse();
    // ---- root mesh sizes and topology (first <Mesh>)
    std::vector<unsigned long long> msz;
    std::map<int, std::vector<std::vector<unsigned long long>>> mtopo;
    for(size_t li = 0; li < m.lines.size(); ++li)
    {
      const Line& L = m.lines[li];
      if(L.kind == Line::open && L.tag == "Mesh" && msz.empty()) { auto* a = m.attr(L, "size"); if(a) for(auto& t : split_ws(a->value)) { unsigned long long v = 0; lenient_u64(t, v); msz.push_back(v); } }
    }
    auto enclosing = [&](size_t li, int up) -> const Line*
    {
      std::vector<const Line*> st;
      for(size_t k = 0; k < li; ++k) if(m.lines[k].kind == Line::open && m.lines[k].match > int(li)) st.push_back(&m.lines[k]);
      if(int(st.size()) <= up) return nullptr;
      return st[st.size() - 1 - size_t(up)];
    };
    for(size_t li = 0; li < m.lines.size(); ++li)
    {
      const Line& L = m.lines[li];
      if(L.kind != Line::content || L.in_info) continue;
      const Line* e0 = enclosing(li, 0); const Line* e1 = enclosing(li, 1);
      if(e0 && e1 && e0->tag == "Topology" && e1->tag == "Mesh")
      {
        auto* a = m.attr(*e0, "dim"); unsigned long long dim = 0;
        if(a && lenient_u64(a->value, dim)) { std::vector<unsigned long long> row; for(auto& t : split_ws(text.substr(L.beg, L.end - L.beg))) { unsigned long long v = 0; lenient_u64(t, v); row.push_back(v); } mtopo[int(dim)].push_back(row); }
      }
    }
    // ---- F3
    for(auto& L : m.lines)
      if((L.kind == Line::open || L.kind == Line::closed) && L.tag == "Attribute")
      {
        auto* a = m.attr(L, "dim"); unsigned long long v = 0;
        if(a && lenient_u64(a->value, v) && v != 0 && int(int32_t(uint32_t(v))) <= 0) d.f3 = true;
      }
    // ---- F4
    for(size_t li = 0; li < m.lines.size(); ++li)
    {
      const Line& P = m.lines[li];
      if(P.kind != Line::open || P.tag != "MeshPart" || P.match < 0) continue;
      auto* tp = m.attr(P, "topology");
      const bool parent_topo = tp && tp->value == "parent";
      std::map<int, std::vector<unsigned long long>> maps;
      for(size_t k = li + 1; k < size_t(P.match); ++k)
      {
        const Line& C = m.lines[k];
        if(C.kind != Line::content) continue;
        const Line* e0 = enclosing(k, 0);
        if(!e0 || e0->tag != "Mapping") continue;
        auto* a = m.attr(*e0, "dim"); unsigned long long dim = 0, v = 0;
        if(!a || !lenient_u64(a->value, dim)) continue;
        if(lenient_u64(text.substr(C.beg, C.end - C.beg), v)) maps[int(dim)].push_back(v);
      }
      if(msz.empty()) continue;
      for(auto& mp : maps)
        for(auto v : mp.second)
          if(mp.first >= 0 && size_t(mp.first) < msz.size() && v >= msz[size_t(mp.first)]) d.f4_range = true;
      if(parent_topo)
      {
        std::set<unsigned long long> vs(maps[0].begin(), maps[0].end());
        for(auto& mp : maps)
        {
          if(mp.first < 1) continue;
          auto it = mtopo.find(mp.first);
          if(it == mtopo.end()) continue;
          for(auto e : mp.second) if(e < it->second.size()) for(auto vtx : it->second[size_t(e)]) if(!vs.count(vtx)) d.f4_closure = true;
        }
      }
    }
    // ---- F5
    for(size_t li = 0; li < m.lines.size(); ++li)
    {
      const Line& B = m.lines[li];
      if(B.kind != Line::open || B.tag != "Bezier" || B.match < 0) continue;
      int npts = 0, nprm = 0;
      for(size_t k = li + 1; k < size_t(B.match); ++k)
      {
        const Line& C = m.lines[k];
        if(C.kind != Line::open && C.kind != Line::closed) continue;
        const Line* e0 = enclosing(k, 0);
        if(e0 != &B) continue;
        if(C.tag == "Points") ++npts;
        if(C.tag == "Params") ++nprm;
      }
      if(npts != 1 || nprm > 1) d.f5 = true;
    }
    // ---- F8
    for(size_t li = 0; li < m.lines.size(); ++li)
    {
      const Line& S = m.lines[li];
      if(S.kind != Line::open || S.tag != "SurfaceMesh" || S.match < 0) continue;
      std::map<std::pair<unsigned long long, unsigned long long>, int> ec;
      for(size_t k = li + 1; k < size_t(S.match); ++k)
      {
        const Line& C = m.lines[k];
        if(C.kind != Line::content) continue;
        const Line* e0 = enclosing(k, 0);
        if(!e0 || e0->tag != "Triangles") continue;
        std::vector<unsigned long long> t;
        for(auto& tk : split_ws(text.substr(C.beg, C.end - C.beg))) { unsigned long long v = 0; if(lenient_u64(tk, v)) t.push_back(v); }
        if(t.size() != 3) continue;
        for(int j = 0; j < 3; ++j)
        {
          unsigned long long a = t[size_t(j)], b = t[size_t((j + 1) % 3)];
          if(a == b) d.f8 = true;
          if(++ec[std::make_pair(std::min(a, b), std::max(a, b))] > 2) d.f8 = true;
        }
      }
    }
    return d;
  }

  /// reason: defect class that explains why an input that must be rejected is accepted (0 = none)
  Rekey mesh_rekey(const std::string& text, int reason)
  {
    return [&text, reason](const std::string& kind, const std::string& msg, const std::string& err) -> std::string
    {
      const Diag d = diagnose(text);
      if(kind == "crash" || kind == "hang")
      {
        // (a 'hang' = 120 s alarm: under heavy machine load the sanitizer may still be writing its report, and out-of-range indices
        //  may send the index calculator into a very long loop - same defect class if it happened inside the linker)
        // msg = "phase=N": the stage of c11::parse_typed in which the child died (harness-side marker, independent of the
        // sanitizer's wording and of UBSAN_OPTIONS=print_stacktrace); FEAT's own assertion texts are used where they exist.
        const int phase = (msg.compare(0, 6, "phase=") == 0) ? std::atoi(msg.c_str() + 6) : -1;
        // F3: XASSERT of the AttributeSet constructor while the parsers run
        if(kind == "hang" && !((d.f4_range || d.f4_closure) && phase == PH_LINK)) return std::string();
        if(d.f3 && phase == PH_SCAN && err.find("AttributeSet") != std::string::npos) return "known-F3 attribute dim outside int range";
        // F4: died inside MeshNodeLinker::execute (deduct_topology -> IndexSetFiller / index calculator) of the first parse
        if((d.f4_range || d.f4_closure) && phase == PH_LINK) return "known-F4 unchecked mapping target index";
        // F5: the writer died on the chart the parser should not have accepted
        if(d.f5 && phase == PH_WRITE) return "known-F5 bezier points/params block count";
        // F8: XABORTM of FacetNeighbors::compute reached from SurfaceMeshChartParser::close
        if(d.f8 && phase == PH_SCAN && err.find("is shared by cells") != std::string::npos) return "known-F8 non-manifold SurfaceMesh triangles";
        return std::string();
      }
      if(kind == "accepted")
      {
        if(reason == 4 && d.f4_range) return "known-F4 unchecked mapping target index";
        if(reason == 5 && d.f5) return "known-F5 bezier points/params block count";
        return std::string();
      }
      if(kind == "rewrite-rejected")
      {
        if(d.f4_closure && msg.find("Index out of bounds") != std::string::npos) return "known-F4 unchecked mapping target index";
        if(d.f5 && (msg.find("<Bezier") != std::string::npos)) return "known-F5 bezier points/params block count";
        return std::string();
      }
      return std::string();
    };
  }

  // executes one mutated mesh text (the caller has already got c.want() == true)
  void run_mesh(verif::Ctx& c, const SeedModel& sm, const std::string& family, const std::string& cls, const std::string& text, Expect ex,
    const std::function<std::string()>& what, int reason = 0)
  {
    if(!g_log.child) c.desc([&]{ return "mesh seed " + sm.name + " | " + cls + " | " + what() + " | text=" + printable(text, 3000); });
    const std::string key = sm.name + " " + cls;
    dispatch(c, key, family, what, [&](Verdict& r){
      Parsed p = parse_mesh(text, sm.default_type, true, false);
      r.kind = p.kind; r.parses = 1;
      if(p.kind == K_OK)
      {
        if(ex == EX_REJECT)
          r.fails.emplace_back("accepted", "input violates the format (" + what() + ") but was parsed without error");
        if(ex == EX_SAME)
        {
          Parsed ps = parse_mesh(sm.text, sm.default_type, true, false);
          if(ps.kind != K_OK || ps.written != p.written)
            r.fails.emplace_back("changed", "input must be equivalent to the seed (" + what() + ") but is parsed into something else: " + printable(p.written, 600));
        }
        // whatever was accepted must be a fixed point of write o parse
        phase_base() = 10;
        Parsed p2 = parse_mesh(p.written, sm.default_type, true, false);
        phase_base() = 0;
        r.parses = 2;
        if(p2.kind != K_OK)
          r.fails.emplace_back("rewrite-rejected", std::string("the writer's output for an accepted input is rejected by the reader: ") + kind_name(p2.kind) + " " + p2.what + " | written: " + printable(p.written, 900));
        else if(p2.written != p.written)
          r.fails.emplace_back("roundtrip", "write(parse(write(parse(x)))) differs from write(parse(x)); first output: " + printable(p.written, 600) + " second: " + printable(p2.written, 600));
      }
      else if(!rejected_cleanly(p.kind))
        r.fails.emplace_back(std::string("undocumented exception ") + kind_name(p.kind), "parser terminated with " + p.what + " (" + what() + ")");
      else if(ex == EX_SAME)
        r.fails.emplace_back("rejected", std::string("input must be equivalent to the seed (") + what() + ") but was rejected: " + kind_name(p.kind) + " " + p.what);
      else if(ex == EX_ACCEPT)
        r.fails.emplace_back("rejected", std::string("valid input (") + what() + ") was rejected: " + kind_name(p.kind) + " " + p.what);
    }, mesh_rekey(text, reason));
    if(!g_log.child && text != sm.text) c.nontrivial(verif::Hash().str(sm.name).str(text).get());
  }

  void run_ini(verif::Ctx& c, const std::string& seed_name, const std::string& seed_text, const std::string& family, const std::string& cls,
    const std::string& text, const std::function<std::string()>& what)
  {
    if(!g_log.child) c.desc([&]{ return "ini seed " + seed_name + " | " + cls + " | " + what() + " | text=" + printable(text, 1000); });
    const std::string key = "ini:" + seed_name + " " + cls;
    dispatch(c, key, "ini " + family, what, [&](Verdict& r){
      ParsedIni p = parse_ini(text);
      r.kind = p.kind; r.parses = 1;
      if(p.kind == K_OK)
      {
        ParsedIni p2 = parse_ini(p.written);
        r.parses = 2;
        if(p2.kind != K_OK) r.fails.emplace_back("rewrite-rejected", "dump of an accepted input is rejected: " + p2.what + " dump=" + printable(p.written));
        else
        {
          if(p2.canon != p.canon) r.fails.emplace_back("reparse-differs", "parse(dump(parse(x))) differs from parse(x): " + printable(p.canon) + " vs " + printable(p2.canon));
          if(p2.written != p.written) r.fails.emplace_back("roundtrip", "dump(parse(dump(parse(x)))) differs from dump(parse(x)): " + printable(p.written) + " vs " + printable(p2.written));
        }
      }
      else if(!rejected_cleanly(p.kind)) r.fails.emplace_back(std::string("undocumented exception ") + kind_name(p.kind), "parser terminated with " + p.what);
    }, Rekey());
    if(!g_log.child && text != seed_text) c.nontrivial(verif::Hash().str("ini").str(seed_name).str(text).get());
  }

  std::string itos(long long v) { return std::to_string(v); }

  int shape_dim_of(const std::string& type)
  {
    // conformal:<shape>:<sdim>:<wdim>
    size_t a = type.find(':'); if(a == std::string::npos) return 0;
    size_t b = type.find(':', a + 1); if(b == std::string::npos) return 0;
    return std::atoi(type.c_str() + b + 1);
  }
}

// ------------------------------------------------------------------------------------------------
// X: scanner-level grammar probe: a markup parser with a declared attribute set that only records what it is given
// ------------------------------------------------------------------------------------------------
namespace
{
  struct ProbeLog { std::vector<std::map<String, String>> created; };
  class GrammarProbe : public Xml::MarkupParser
  {
  public:
    std::map<String, bool> decl, child_decl; ProbeLog& log;
    GrammarProbe(const std::map<String, bool>& d, const std::map<String, bool>& cd, ProbeLog& l) : decl(d), child_decl(cd), log(l) {}
    virtual bool attribs(std::map<String, bool>& attrs) const override { attrs = decl; return true; }
    virtual void create(int, const String&, const String&, const std::map<String, String>& attrs, bool) override { log.created.push_back(attrs); }
    virtual void close(int, const String&) override {}
    virtual bool content(int, const String&) override { return true; }
    virtual std::shared_ptr<Xml::MarkupParser> markup(int, const String&, const String&) override { return std::make_shared<GrammarProbe>(child_decl, child_decl, log); }
  };
}

int main(int argc, char** argv)
{
  FEAT::Runtime::ScopeGuard guard(argc, argv);
  verif::Spec spec;
  spec.property = "C11";
  spec.harness = "c11_faults";
  spec.rule = "cases = (seed file, one fault): T every truncation; B every byte position x byte alphabet (substitution) and every byte deletion; "
    "L every line deleted / duplicated; N every numeric token x {+1,-1,0,-1 literal,2^63,2^32,1e9,non-numeric,junk suffix,1e400}; "
    "S every declared count, dimension, index, type, reference violated one at a time, every element block deleted / duplicated / moved, a comment line (well-formed / unterminated) after every line; "
    "R re-invocation on filled objects: seed then each of its top-level blocks as a second file into the same node/atlas/partition set (existing chart/mesh/mesh part must be rejected and leave the objects unchanged, partitions are added), "
    "block file then seed, block file twice, every (quick: every 3rd) truncation of the seed as second file; "
    "S20-S22: a content line / unknown markup / misplaced markup / nested copy as first child of every element, every closed markup written as pair (must be equivalent) and with content or child (rejected), every chart kind added to every seed (accepted iff it exists for the dimension); "
    "A every attribute of every markup deleted, every pair of attributes of a markup deleted, all deleted, renamed to an undeclared name sorting before/after (a0,zz,a_,zz_), an undeclared attribute added, given twice -- "
    "mandatory/optional taken from a table in the harness transcribed from the parser classes' attribs() declarations; X scanner grammar: every declaration of 4 attribute names as absent/optional/mandatory x every given subset; "
    "D2 (thorough) every pair of byte substitutions on the smallest seed; the same T/B/L families on the INI seeds. "
    "A case is non-trivial when the mutated text differs from the seed (hash = seed name + mutated text).";
  spec.bounds_quick = "13 mesh seeds (0.36-2.3 KB; 5 of them with mesh parts that hold cells: region with full topology, region without topology, patch-like part with deducted topology; 1D/2D/3D, hypercube/simplex, mesh parts with none/full/parent topology, attribute, Circle/Bezier/Sphere/SurfaceMesh/Extrude charts, partitions) "
    "and 3 INI seeds; byte alphabet of 14 bytes: < > / \" = space newline 0 9 - . x NUL 0xFF";
  spec.bounds_thorough = "as quick with all 256 byte values at every position, and depth-2 (pairs of substitutions over < \" space 0) on the smallest seed";
  spec.assumptions = {
    "required outcome of every case: parsed, or Xml::SyntaxError/GrammarError/ContentError, MeshNodeLinkerError, FileError/ParseError/SyntaxError(PropertyMap), or std::bad_alloc/length_error for counts the machine cannot hold; anything else (other exception, signal, sanitizer report, 120 s alarm) is a violation",
    "faults that provably violate the format (truncation before the end of the root terminator, deleted/duplicated counted content line or markup line, count/dimension/index/type/reference mutations of class S, non-numeric text in a numeric field) must be rejected",
    "every accepted input must be a fixed point of write o parse (byte identity of the second write)",
    "operator new is replaced by a version that throws std::bad_alloc above 512 MB (ASan's own operator new cannot throw); malloc stays ASan's",
    "the trailing-junk tolerance of FEAT::String::parse (\"3x\" reads as 3, \"3 0\" on a one-index line reads as 3) is not counted as malformed input; such cases are counted in lenient_* counters",
    "application-level dispatch: the mesh type is taken from the root markup's 'mesh' attribute (seed's type if absent); unknown type strings count as refused"
  };
  spec.deadline_quick_s = 500; spec.deadline_thorough_s = 3000;
  spec.max_fail_per_worker = 4000; spec.max_report = 40;
  spec.case_timeout_s = 300;

  // ---- seeds (smallest first)
  const char* root_env = std::getenv("VERIF_ROOT");
  std::string root = root_env ? root_env : "/verif";
  { struct stat sb; if(stat((root + "/spec/mesh_seeds").c_str(), &sb) != 0) root = "/verif"; }   // an audit may run with a private VERIF_ROOT
  struct SD { const char* name; const char* type; };
  const SD sds[] = {
    {"bezier_closed", "conformal:hypercube:2:2"}, {"partitions", "conformal:hypercube:2:2"}, {"edge1d", "conformal:hypercube:1:1"},
    {"extrude3d", "conformal:hypercube:3:3"}, {"tria2d", "conformal:simplex:2:2"}, {"quad2d", "conformal:hypercube:2:2"},
    {"hexa3d", "conformal:hypercube:3:3"}, {"tetra3d", "conformal:simplex:3:3"},
    // seeds whose mesh parts HOLD CELLS: a region with full topology, one without topology, a patch-like part with deducted topology
    {"edge1d_cells", "conformal:hypercube:1:1"}, {"tria2d_cells", "conformal:simplex:2:2"}, {"quad2d_cells", "conformal:hypercube:2:2"},
    {"tetra3d_cells", "conformal:simplex:3:3"}, {"hexa3d_cells", "conformal:hypercube:3:3"}};
  std::vector<SeedModel> seeds;
  for(auto& sd : sds)
  {
    SeedModel sm; sm.name = sd.name; sm.default_type = sd.type;
    if(!read_file(root + "/spec/mesh_seeds/" + sd.name + ".xml", sm.text)) { fprintf(stdout, "MACHINERY: cannot read seed %s\n", sd.name); return 2; }
    sm.analyse();
    seeds.push_back(sm);
  }
  const char* ini_names[] = {"merge", "flat", "nested"};
  std::vector<std::pair<std::string, std::string>> inis;
  for(auto n : ini_names) { std::string t; if(!read_file(root + "/spec/ini_seeds/" + n + ".ini", t)) { fprintf(stdout, "MACHINERY: cannot read ini seed %s\n", n); return 2; } inis.emplace_back(n, t); }

  const std::string alpha14 = std::string("<>/\"= \n09-.x") + std::string(1, '\0') + std::string(1, char(0xFF));
  const std::string ini_alpha = std::string("#=[]{}& \na0/") + std::string(1, '\0') + std::string(1, char(0xFF));

  return verif::run(spec, argc, argv, [&](verif::Ctx& c) {
    std::string alphabet = alpha14, ialphabet = ini_alpha;
    if(c.thorough) { alphabet.clear(); for(int b = 0; b < 256; ++b) alphabet.push_back(char(b)); ialphabet = alphabet; }

    for(const SeedModel& sm : seeds)
    {
      const std::string& T = sm.text;
      const int sdim = shape_dim_of(sm.default_type);
      bool has_mesh = false, has_parent_topo = false;
      std::map<std::string, int> chart_refs;
      for(auto& L : sm.lines)
      {
        if(L.kind == Line::open && L.tag == "Mesh") has_mesh = true;
        if(L.kind == Line::open && L.tag == "MeshPart") { auto* a = sm.attr(L, "topology"); if(a && a->value == "parent") has_parent_topo = true; auto* ch = sm.attr(L, "chart"); if(ch) chart_refs[ch->value]++; }
      }
      std::vector<long long> mesh_sizes;
      for(auto& L : sm.lines) if(L.kind == Line::open && L.tag == "Mesh") { auto* a = sm.attr(L, "size"); if(a) for(auto& s : split_ws(a->value)) mesh_sizes.push_back(std::atoll(s.c_str())); }

      // ---------------------------------------------------------------- the seed itself
      if(c.want() && !g_log.child)
      {
        c.desc([&]{ return "mesh seed " + sm.name + " unmodified"; });
        Parsed p = parse_mesh(T, sm.default_type, true, true);
        if(c.check(p.kind == K_OK, sm.name + " seed :: rejected", [&]{ return std::string("seed file is not accepted: ") + kind_name(p.kind) + " " + p.what; }))
        {
          Parsed p2 = parse_mesh(p.written, sm.default_type, true, true);
          c.check(p2.kind == K_OK && p2.written == p.written, sm.name + " seed :: roundtrip", [&]{ return "second write differs: " + printable(p.written, 1500) + " vs " + printable(p2.written, 1500); });
          c.check(p2.canon == p.canon, sm.name + " seed :: structure", [&]{ return "structure after write/parse differs: " + printable(p.canon, 1500) + " vs " + printable(p2.canon, 1500); });
        }
        c.outcome(std::string("seed -> ") + kind_name(p.kind));
        c.nontrivial(verif::Hash().str("seed").str(sm.name).get());
      }

      // ---------------------------------------------------------------- T: every truncation
      {
        const size_t eor = sm.end_of_root();
        for(size_t len = 0; len < T.size(); ++len)
        {
          if(!c.want()) continue;
          run_mesh(c, sm, "T", "truncation", T.substr(0, len), len < eor ? EX_REJECT : EX_ANY, [&]{ return "truncated to " + itos((long long)len) + " of " + itos((long long)T.size()) + " bytes"; });
        }
      }
      // ---------------------------------------------------------------- B: byte substitution / deletion
      for(size_t pos = 0; pos < T.size(); ++pos)
      {
        for(char ch : alphabet)
        {
          if(ch == T[pos]) continue;
          if(!c.want()) continue;
          std::string m = T; m[pos] = ch;
          run_mesh(c, sm, "B", "byte-substitution", m, EX_ANY, [&]{ char b[64]; snprintf(b, sizeof b, "byte %zu: 0x%02x -> 0x%02x", pos, (unsigned char)T[pos], (unsigned char)ch); return std::string(b); });
        }
        if(!c.want()) continue;
        std::string m = T; m.erase(pos, 1);
        run_mesh(c, sm, "B", "byte-deletion", m, EX_ANY, [&]{ return "byte " + itos((long long)pos) + " deleted"; });
      }
      // ---------------------------------------------------------------- L: line deletion / duplication
      for(size_t li = 0; li < sm.lines.size(); ++li)
      {
        const Line& L = sm.lines[li];
        const bool inert = (L.kind == Line::blank || L.kind == Line::comment || (L.in_info && L.kind == Line::content));
        const bool root_close = (L.kind == Line::close && L.path.empty());
        if(c.want())
        {
          std::string m = T.substr(0, L.beg) + T.substr(L.next);
          run_mesh(c, sm, "L", std::string("line-deletion ") + (inert ? "inert" : L.kind == Line::content ? "content" : "markup"), m, inert ? EX_ANY : EX_REJECT,
            [&]{ return "line " + itos((long long)li + 1) + " deleted: '" + printable(T.substr(L.beg, L.end - L.beg)) + "'"; });
        }
        if(c.want())
        {
          std::string ln = T.substr(L.beg, L.end - L.beg) + "\n";
          std::string m = T.substr(0, L.next) + ln + T.substr(L.next);
          if(L.next == L.end) m = T + "\n" + ln; // last line without newline
          Expect ex = EX_ANY;
          if(!inert && !root_close && (L.kind == Line::content || L.kind == Line::open || L.kind == Line::close)) ex = EX_REJECT;
          run_mesh(c, sm, "L", std::string("line-duplication ") + (inert ? "inert" : L.kind == Line::content ? "content" : L.kind == Line::closed ? "closed-markup" : "markup"), m, ex,
            [&]{ return "line " + itos((long long)li + 1) + " duplicated: '" + printable(T.substr(L.beg, L.end - L.beg)) + "'"; });
        }
      }
      // ---------------------------------------------------------------- N: numeric tokens
      for(size_t ti = 0; ti < sm.numtok.size(); ++ti)
      {
        const Token& tk = sm.numtok[ti];
        const std::string tok = T.substr(tk.beg, tk.end - tk.beg);
        std::vector<std::pair<std::string, Expect>> reps;
        if(SeedModel::integer(tok)) { long long v = std::atoll(tok.c_str()); reps.emplace_back(itos(v + 1), EX_ANY); reps.emplace_back(itos(v - 1), EX_ANY); }
        else { reps.emplace_back(tok + "1", EX_ANY); reps.emplace_back("-" + tok, EX_ANY); }
        reps.emplace_back("0", EX_ANY);
        reps.emplace_back("-1", EX_ANY);
        reps.emplace_back("9223372036854775808", EX_ANY);
        reps.emplace_back("18446744073709551615", EX_ANY);
        reps.emplace_back("4294967296", EX_ANY);
        reps.emplace_back("2147483648", EX_ANY);
        reps.emplace_back("1000000000", EX_ANY);
        reps.emplace_back("30000", EX_ANY);
        reps.emplace_back("abc", EX_REJECT);
        reps.emplace_back("", EX_ANY);
        reps.emplace_back(tok + "x", EX_ANY);
        reps.emplace_back("1e400", EX_ANY);
        reps.emplace_back("nan", EX_ANY);
        reps.emplace_back("0x10", EX_ANY);
        for(auto& r : reps)
        {
          if(r.first == tok) continue;
          if(!c.want()) continue;
          std::string m = sm.replace(tk.beg, tk.end, r.first);
          const Line& L = sm.lines[tk.line];
          std::string where = tk.in_attr ? ("attribute " + tk.attr + " of <" + L.tag + ">") : ("content of <" + sm.parent(L) + ">");
          const std::string wshort = tk.in_attr ? ("<" + L.tag + ">@" + tk.attr) : ("<" + sm.parent(L) + "> content");
          run_mesh(c, sm, "N", std::string("numeric-token ") + (r.second == EX_REJECT ? "non-numeric " + wshort : r.first == tok + "x" ? "junk-suffix" : "value " + wshort), m, r.second,
            [&]{ return "numeric token '" + tok + "' (" + where + ", line " + itos((long long)tk.line + 1) + ") -> '" + r.first + "'"; });
        }
      }
      // ---------------------------------------------------------------- S: semantic single faults
      auto sem = [&](const std::string& cls, const std::string& m, Expect ex, const std::string& what, int reason = 0)
      {
        // caller checked c.want()
        run_mesh(c, sm, "S", cls, m, ex, [&]{ return what; }, reason);
      };
      for(size_t li = 0; li < sm.lines.size(); ++li)
      {
        const Line& L = sm.lines[li];
        if(L.in_info) continue;
        const std::string lno = " (line " + itos((long long)li + 1) + ")";
        if(L.kind == Line::open || L.kind == Line::closed)
        {
          // --- size-like attributes: every entry +1 / -1
          struct SA { const char* tag; const char* attr; const char* cls; };
          const SA sas[] = {{"Mesh", "size", "S1 mesh-size"}, {"MeshPart", "size", "S2 meshpart-size"}, {"Patch", "size", "S9 patch-size"},
            {"Bezier", "size", "S14 bezier-size"}, {"SurfaceMesh", "verts", "S15 surfacemesh-verts"}, {"SurfaceMesh", "trias", "S15 surfacemesh-trias"}};
          for(auto& sa : sas)
          {
            if(L.tag != sa.tag) continue;
            const AttrSpan* a = sm.attr(L, sa.attr);
            if(!a) continue;
            std::vector<std::string> ent = split_ws(a->value);
            for(size_t e = 0; e < ent.size(); ++e)
              for(int dlt = -1; dlt <= 1; dlt += 2)
              {
                long long v = std::atoll(ent[e].c_str()) + dlt;
                if(!c.want()) continue;
                std::vector<std::string> e2 = ent; e2[e] = itos(v);
                sem(sa.cls, sm.replace(a->vbeg, a->vend, join_ws(e2)), EX_REJECT, std::string("<") + sa.tag + "> " + sa.attr + " entry " + itos((long long)e) + ": " + ent[e] + " -> " + itos(v) + lno);
              }
          }
          // --- mesh part size: an additional entry for a dimension without mapping
          if(L.tag == "MeshPart")
          {
            const AttrSpan* a = sm.attr(L, "size");
            if(a && int(split_ws(a->value).size()) <= sdim)
            {
              if(c.want()) sem("S2 meshpart-size-extra-entry", sm.replace(a->vbeg, a->vend, a->value + " 1"), EX_REJECT, "<MeshPart> size gets an additional entry 1 without mapping" + lno);
            }
            if(a) { std::string big = a->value; for(int k = 0; k < sdim + 1; ++k) big += " 0"; if(c.want()) sem("S2 meshpart-size-too-many-entries", sm.replace(a->vbeg, a->vend, big), EX_REJECT, "<MeshPart> size with more entries than dimensions" + lno); }
            const AttrSpan* ch = sm.attr(L, "chart");
            if(ch) { if(c.want()) sem("S12 meshpart-unknown-chart", sm.replace(ch->vbeg, ch->vend, "nochart"), EX_REJECT, "<MeshPart> chart -> 'nochart'" + lno); }
            const AttrSpan* pa = sm.attr(L, "parent");
            if(pa) { if(c.want()) sem("S13 meshpart-parent", sm.replace(pa->vbeg, pa->vend, "other"), EX_REJECT, "<MeshPart> parent -> 'other'" + lno); }
            const AttrSpan* tp = sm.attr(L, "topology");
            if(tp)
            {
              if(c.want()) sem("S13 meshpart-topology-attr", sm.replace(tp->vbeg, tp->vend, "bogus"), EX_REJECT, "<MeshPart> topology -> 'bogus'" + lno);
              for(const char* alt : {"none", "full", "parent"}) { if(tp->value == alt) continue; if(!c.want()) continue; sem("S13 meshpart-topology-switch", sm.replace(tp->vbeg, tp->vend, alt), EX_ANY, std::string("<MeshPart> topology ") + tp->value + " -> " + alt + lno); }
            }
            const AttrSpan* nm = sm.attr(L, "name");
            if(nm) { if(c.want()) sem("S13 meshpart-empty-name", sm.replace(nm->vbeg, nm->vend, ""), EX_ANY, "<MeshPart> name -> ''" + lno); }
          }
          if(L.tag == "Mesh")
          {
            const AttrSpan* a = sm.attr(L, "type");
            if(a)
            {
              std::vector<std::string> alts = {"structured:hypercube:2:2", "conformal", "conformal:hypercube:2", "conformal:hypercube:2:2:2", ""};
              // swap the shape, change dims by +-1
              {
                std::string v = a->value; size_t p1 = v.find(':'), p2 = v.find(':', p1 + 1), p3 = v.find(':', p2 + 1);
                if(p3 != std::string::npos)
                {
                  std::string shp = v.substr(p1 + 1, p2 - p1 - 1); int sd = std::atoi(v.c_str() + p2 + 1), wd = std::atoi(v.c_str() + p3 + 1);
                  alts.push_back("conformal:" + std::string(shp == "simplex" ? "hypercube" : "simplex") + ":" + itos(sd) + ":" + itos(wd));
                  alts.push_back("conformal:" + shp + ":" + itos(sd + 1) + ":" + itos(wd));
                  alts.push_back("conformal:" + shp + ":" + itos(sd - 1) + ":" + itos(wd));
                  alts.push_back("conformal:" + shp + ":" + itos(sd) + ":" + itos(wd + 1));
                  alts.push_back("conformal:" + shp + ":" + itos(sd) + ":" + itos(wd - 1));
                  alts.push_back("Conformal:" + shp + ":" + itos(sd) + ":" + itos(wd));
                }
              }
              for(auto& alt : alts) { if(alt == a->value) continue; if(!c.want()) continue; sem("S7 mesh-type", sm.replace(a->vbeg, a->vend, alt), EX_REJECT, "<Mesh> type " + a->value + " -> '" + alt + "'" + lno); }
            }
          }
          if(L.tag == "FeatMeshFile")
          {
            const AttrSpan* a = sm.attr(L, "version");
            if(a) for(const char* alt : {"0", "2", "1.5", "-1"}) { if(!c.want()) continue; sem("S8 version", sm.replace(a->vbeg, a->vend, alt), std::string(alt) == "1.5" ? EX_ANY : EX_REJECT, std::string("root version -> ") + alt + lno); }
            const AttrSpan* mt = sm.attr(L, "mesh");
            if(mt)
            {
              for(const char* alt : {"conformal:hypercube:1:1", "conformal:hypercube:2:2", "conformal:hypercube:3:3", "conformal:simplex:2:2", "conformal:simplex:3:3",
                "conformal:simplex:1:1", "conformal:hypercube:2:3", "structured:hypercube:2:2", "conformal:hypercube:0:2", "conformal:hypercube:2", "conformal:blob:2:2", ""})
              {
                if(mt->value == alt) continue;
                if(!c.want()) continue;
                sem("S8 root-mesh-attribute", sm.replace(mt->vbeg, mt->vend, alt), has_mesh ? EX_REJECT : EX_ANY, std::string("root mesh attribute ") + mt->value + " -> '" + alt + "'" + lno);
              }
            }
          }
          // --- dim attributes
          if(L.tag == "Topology" || L.tag == "Mapping" || L.tag == "Attribute")
          {
            const AttrSpan* a = sm.attr(L, "dim");
            if(a && (sm.parent(L) == "Mesh" || sm.parent(L) == "MeshPart"))
            {
              std::vector<std::pair<std::string, Expect>> alts;
              if(L.tag == "Attribute") { alts.emplace_back(itos(std::atoll(a->value.c_str()) + 1), EX_REJECT); alts.emplace_back("0", EX_REJECT); alts.emplace_back("-1", EX_REJECT); }
              else
              {
                alts.emplace_back(itos(sdim + 1), EX_REJECT);
                alts.emplace_back(itos(sdim + 2), EX_REJECT);
                alts.emplace_back("-1", EX_REJECT);
                if(L.tag == "Topology") alts.emplace_back("0", EX_REJECT);
                // duplicate of another block of the same kind in the same parent
                for(size_t lj = 0; lj < sm.lines.size(); ++lj)
                {
                  const Line& O = sm.lines[lj];
                  if(lj == li || O.kind != Line::open || O.tag != L.tag || O.path != L.path) continue;
                  // same parent instance: nearest enclosing open line identical
                  int pi = -1, pj = -1;
                  for(size_t k = 0; k < li; ++k) if(sm.lines[k].kind == Line::open && sm.lines[k].match > int(li)) pi = int(k);
                  for(size_t k = 0; k < lj; ++k) if(sm.lines[k].kind == Line::open && sm.lines[k].match > int(lj)) pj = int(k);
                  if(pi != pj) continue;
                  const AttrSpan* oa = sm.attr(O, "dim");
                  if(oa) alts.emplace_back(oa->value, EX_REJECT);
                }
              }
              for(auto& alt : alts) { if(alt.first == a->value) continue; if(!c.want()) continue; sem("S4 dim-attribute <" + L.tag + ">", sm.replace(a->vbeg, a->vend, alt.first), alt.second, "<" + L.tag + "> dim " + a->value + " -> " + alt.first + lno); }
            }
          }
          if(L.tag == "Patch")
          {
            const AttrSpan* a = sm.attr(L, "rank");
            // number of ranks from the enclosing partition
            long long nranks = -1;
            for(size_t k = 0; k < li; ++k) if(sm.lines[k].kind == Line::open && sm.lines[k].tag == "Partition" && sm.lines[k].match > int(li)) { auto* s = sm.attr(sm.lines[k], "size"); if(s) nranks = std::atoll(split_ws(s->value).front().c_str()); }
            if(a && nranks >= 0) for(long long v : {nranks, nranks + 7, -1ll}) { if(!c.want()) continue; sem("S9 patch-rank", sm.replace(a->vbeg, a->vend, itos(v)), EX_REJECT, "<Patch> rank " + a->value + " -> " + itos(v) + " with " + itos(nranks) + " ranks" + lno); }
          }
          if(L.tag == "Partition")
          {
            const AttrSpan* a = sm.attr(L, "size");
            if(a)
            {
              std::vector<std::string> e = split_ws(a->value);
              if(e.size() == 2)
              {
                // fewer ranks / fewer elements than used below must be rejected; more are of unknown validity
                if(c.want()) sem("S9 partition-fewer-ranks", sm.replace(a->vbeg, a->vend, itos(std::atoll(e[0].c_str()) - 1) + " " + e[1]), EX_REJECT, "<Partition> rank count -1" + lno);
                if(c.want()) sem("S9 partition-more-ranks", sm.replace(a->vbeg, a->vend, itos(std::atoll(e[0].c_str()) + 1) + " " + e[1]), EX_ANY, "<Partition> rank count +1" + lno);
                if(c.want()) sem("S9 partition-fewer-elements", sm.replace(a->vbeg, a->vend, e[0] + " " + itos(std::atoll(e[1].c_str()) - 1)), EX_REJECT, "<Partition> element count -1" + lno);
                if(c.want()) sem("S9 partition-more-elements", sm.replace(a->vbeg, a->vend, e[0] + " " + itos(std::atoll(e[1].c_str()) + 1)), EX_ANY, "<Partition> element count +1" + lno);
                if(c.want()) sem("S9 partition-size-entries", sm.replace(a->vbeg, a->vend, e[0]), EX_REJECT, "<Partition> size with one entry" + lno);
                if(c.want()) sem("S9 partition-size-entries", sm.replace(a->vbeg, a->vend, a->value + " 1"), EX_REJECT, "<Partition> size with three entries" + lno);
              }
            }
            const AttrSpan* lv = sm.attr(L, "level");
            if(lv) { if(c.want()) sem("S9 partition-negative-level", sm.replace(lv->vbeg, lv->vend, "-1"), EX_REJECT, "<Partition> level -> -1" + lno); }
          }
          // --- chart parameters
          if(L.tag == "Circle")
          {
            const AttrSpan* r = sm.attr(L, "radius");
            if(r) for(const char* alt : {"0", "-1", "1e-9"}) { if(!c.want()) continue; sem("S16 circle-radius", sm.replace(r->vbeg, r->vend, alt), EX_REJECT, std::string("<Circle> radius -> ") + alt + lno); }
            const AttrSpan* m = sm.attr(L, "midpoint");
            if(m) for(const char* alt : {"0", "0 0 0", ""}) { if(!c.want()) continue; sem("S16 circle-midpoint", sm.replace(m->vbeg, m->vend, alt), EX_REJECT, std::string("<Circle> midpoint -> '") + alt + "'" + lno); }
            const AttrSpan* d = sm.attr(L, "domain");
            if(d)
            {
              for(const char* alt : {"0", "0 1 2"}) { if(!c.want()) continue; sem("S16 circle-domain-entries", sm.replace(d->vbeg, d->vend, alt), EX_REJECT, std::string("<Circle> domain -> '") + alt + "'" + lno); }
              for(const char* alt : {"0 0", "1 1", "4 0"}) { if(!c.want()) continue; sem("S16 circle-domain-degenerate", sm.replace(d->vbeg, d->vend, alt), EX_ANY, std::string("<Circle> domain -> '") + alt + "'" + lno); }
            }
          }
          if(L.tag == "Sphere")
          {
            const AttrSpan* r = sm.attr(L, "radius");
            if(r) for(const char* alt : {"0", "-1", "1e-9"}) { if(!c.want()) continue; sem("S16 sphere-radius", sm.replace(r->vbeg, r->vend, alt), EX_REJECT, std::string("<Sphere> radius -> ") + alt + lno); }
            const AttrSpan* m = sm.attr(L, "midpoint");
            if(m) for(const char* alt : {"0 0", "0 0 0 0", ""}) { if(!c.want()) continue; sem("S16 sphere-midpoint", sm.replace(m->vbeg, m->vend, alt), EX_REJECT, std::string("<Sphere> midpoint -> '") + alt + "'" + lno); }
          }
          if(L.tag == "Bezier")
          {
            const AttrSpan* d = sm.attr(L, "dim");
            if(d) for(const char* alt : {"1", "3", "0"}) { if(!c.want()) continue; sem("S14 bezier-dim", sm.replace(d->vbeg, d->vend, alt), EX_REJECT, std::string("<Bezier> dim -> ") + alt + lno); }
            const AttrSpan* t = sm.attr(L, "type");
            if(t) { if(c.want()) sem("S14 bezier-type", sm.replace(t->vbeg, t->vend, "bogus"), EX_REJECT, "<Bezier> type -> bogus" + lno); }
            if(t) { std::string alt = (t->value == "closed" ? "open" : "closed"); if(c.want()) sem("S14 bezier-type-switch", sm.replace(t->vbeg, t->vend, alt), EX_ANY, "<Bezier> type -> " + alt + lno); }
            const AttrSpan* o = sm.attr(L, "orientation");
            if(o) for(const char* alt : {"0", "2", "-2", "0.5"}) { if(!c.want()) continue; sem("S14 bezier-orientation", sm.replace(o->vbeg, o->vend, alt), EX_ANY, std::string("<Bezier> orientation -> ") + alt + lno); }
            const AttrSpan* s = sm.attr(L, "size");
            if(s) for(const char* alt : {"0", "1"}) { if(!c.want()) continue; sem("S14 bezier-size-degenerate", sm.replace(s->vbeg, s->vend, alt), EX_REJECT, std::string("<Bezier> size -> ") + alt + lno); }
          }
          if(L.tag == "Extrude")
          {
            for(const char* an : {"origin", "offset", "angles"})
            {
              const AttrSpan* a = sm.attr(L, an);
              if(!a) continue;
              if(c.want()) sem("S17 extrude-attr-entries", sm.replace(a->vbeg, a->vend, a->value + " 0"), EX_REJECT, std::string("<Extrude> ") + an + " with one entry too many" + lno);
              if(c.want()) sem("S17 extrude-attr-entries", sm.replace(a->vbeg, a->vend, "0"), EX_REJECT, std::string("<Extrude> ") + an + " with one entry" + lno);
            }
          }
          if(L.tag == "Chart")
          {
            const AttrSpan* n = sm.attr(L, "name");
            if(n) { if(c.want()) sem("S18 chart-empty-name", sm.replace(n->vbeg, n->vend, " "), EX_REJECT, "<Chart> name -> ' '" + lno); }
            // rename to the name of another chart in the file
            for(auto& O : sm.lines)
            {
              if(&O == &L || O.kind != Line::open || O.tag != "Chart") continue;
              const AttrSpan* on = sm.attr(O, "name");
              if(!n || !on) continue;
              if(!c.want()) continue;
              sem("S18 chart-duplicate-name", sm.replace(n->vbeg, n->vend, on->value), EX_REJECT, "<Chart> name '" + n->value + "' -> '" + on->value + "' (two charts of the same name)" + lno);
            }
          }
        }
        else if(L.kind == Line::content)
        {
          const std::string par = sm.parent(L);
          const std::string line = T.substr(L.beg, L.end - L.beg);
          std::vector<std::string> tk = split_ws(line);
          const std::string indent = line.substr(0, line.find_first_not_of(" \t"));
          auto setline = [&](const std::vector<std::string>& v) { return sm.replace(L.beg, L.end, indent + join_ws(v)); };
          const bool in_mesh = sm.under(L, "Mesh"), in_part = sm.under(L, "MeshPart");
          // enclosing element's attributes
          const Line* enc = nullptr; const Line* enc2 = nullptr;
          for(size_t k = 0; k < li; ++k) if(sm.lines[k].kind == Line::open && sm.lines[k].match > int(li)) { enc2 = enc; enc = &sm.lines[k]; }
          if(par == "Vertices" || par == "Topology" || par == "Triangles" || par == "Points" || par == "Attribute")
          {
            // S5/S6: one token too few / too many
            if(tk.size() > 1) { if(c.want()) { auto v = tk; v.pop_back(); sem("S5 tuple-too-short <" + par + ">", setline(v), EX_REJECT, "line with one entry too few in <" + par + ">" + lno); } }
            if(c.want()) { auto v = tk; v.push_back("0"); sem("S5 tuple-too-long <" + par + ">", setline(v), EX_REJECT, "line with one entry too many in <" + par + ">" + lno); }
          }
          if(par == "Mapping" || par == "Patch" || par == "Params")
          {
            if(c.want()) { auto v = tk; v.push_back("0"); sem("S5 trailing-entry <" + par + ">", setline(v), EX_ANY, "single-entry line with a trailing second entry in <" + par + ">" + lno); }
          }
          if(par == "Topology" && enc2)
          {
            // S3: every index -> bound, bound+5, -1
            const AttrSpan* sz = sm.attr(*enc2, "size");
            long long bound = sz ? std::atoll(split_ws(sz->value).front().c_str()) : -1;
            if(bound >= 0)
              for(size_t e = 0; e < tk.size(); ++e)
                for(long long v : {bound, bound + 5, -1ll})
                {
                  if(!c.want()) continue;
                  auto w = tk; w[e] = itos(v);
                  sem(std::string("S3 vertex-index-out-of-range ") + (in_mesh ? "<Mesh>" : "<MeshPart>"), setline(w), EX_REJECT, "vertex index " + tk[e] + " -> " + itos(v) + " with " + itos(bound) + " vertices" + lno);
                }
          }
          if(par == "Triangles" && enc2)
          {
            const AttrSpan* sz = sm.attr(*enc2, "verts");
            long long bound = sz ? std::atoll(sz->value.c_str()) : -1;
            if(bound >= 0)
              for(size_t e = 0; e < tk.size(); ++e)
                for(long long v : {bound, bound + 5, -1ll})
                {
                  if(!c.want()) continue;
                  auto w = tk; w[e] = itos(v);
                  sem("S3 vertex-index-out-of-range <SurfaceMesh>", setline(w), EX_REJECT, "triangle vertex index " + tk[e] + " -> " + itos(v) + " with " + itos(bound) + " vertices" + lno);
                }
          }
          if(par == "Mapping" && in_part && enc && has_mesh && tk.size() == 1)
          {
            // S10: target index outside the parent's entity range
            const AttrSpan* d = sm.attr(*enc, "dim");
            int dim = d ? std::atoi(d->value.c_str()) : -1;
            if(dim >= 0 && dim < int(mesh_sizes.size()))
              for(long long v : {mesh_sizes[size_t(dim)], mesh_sizes[size_t(dim)] + 1000, -1ll})
              {
                if(!c.want()) continue;
                sem("S10 mapping-index-out-of-parent-range dim" + itos(dim), setline({itos(v)}), EX_REJECT,
                  "mesh part target index " + tk[0] + " -> " + itos(v) + " but the root mesh has " + itos(mesh_sizes[size_t(dim)]) + " entities of dimension " + itos(dim) + lno, 4);
              }
          }
          if(par == "Patch" && enc2 && tk.size() == 1)
          {
            const AttrSpan* sz = sm.attr(*enc2, "size");
            std::vector<std::string> e = sz ? split_ws(sz->value) : std::vector<std::string>();
            if(e.size() == 2)
              for(long long v : {std::atoll(e[1].c_str()), std::atoll(e[1].c_str()) + 9, -1ll})
              {
                if(!c.want()) continue;
                sem("S9 patch-element-out-of-range", setline({itos(v)}), EX_REJECT, "patch element " + tk[0] + " -> " + itos(v) + " with " + e[1] + " elements" + lno);
              }
          }
          if(par == "Points" && !tk.empty())
          {
            for(int dlt = -1; dlt <= 1; dlt += 2)
            {
              long long v = std::atoll(tk[0].c_str()) + dlt;
              if(!c.want()) continue;
              auto w = tk; w[0] = itos(v);
              sem("S14 bezier-control-count", setline(w), EX_REJECT, "Bezier point line: control point count " + tk[0] + " -> " + itos(v) + lno);
            }
            for(const char* alt : {"4", "100"})
            {
              // consistent line with a degree the chart does not support
              if(!c.want()) continue;
              std::vector<std::string> w; w.push_back(alt); for(int k = 0; k < std::atoi(alt) * 2; ++k) w.push_back("0.5"); w.push_back(tk[tk.size() - 2]); w.push_back(tk.back());
              sem("S14 bezier-degree-too-high", setline(w), EX_ANY, std::string("Bezier point line with ") + alt + " control points" + lno);
            }
          }
        }
      }
      // ---------------------------------------------------------------- A: attributes deleted / renamed / added
      // Table of the attributes the parser classes declare in their attribs() functions (true = mandatory), transcribed
      // from kernel/geometry/mesh_file_reader.hpp:203,413,522,609f,721f,872-876,1038f,1116-1119,1224f and
      // kernel/geometry/atlas/{bezier.hpp:1171-1174,circle.hpp:289-291,extrude.hpp:385-387,sphere.hpp:213f,surface_mesh.hpp:1092f};
      // parsers that declare nothing (Vertices, Points, Params, Triangles) accept no attribute at all.
      {
        static const std::map<std::string, std::map<std::string, bool>> decl = {
          {"FeatMeshFile", {{"version", true}, {"mesh", false}}},
          {"Chart", {{"name", true}}},
          {"Mesh", {{"type", true}, {"size", true}}},
          {"Vertices", {}}, {"Points", {}}, {"Params", {}}, {"Triangles", {}},
          {"Topology", {{"dim", true}}},
          {"Mapping", {{"dim", true}}},
          {"Attribute", {{"dim", true}, {"name", true}}},
          {"MeshPart", {{"name", true}, {"parent", true}, {"size", true}, {"topology", true}, {"chart", false}}},
          {"Partition", {{"size", true}, {"name", false}, {"priority", false}, {"level", false}}},
          {"Patch", {{"rank", true}, {"size", true}}},
          {"Circle", {{"radius", true}, {"midpoint", true}, {"domain", false}}},
          {"Sphere", {{"radius", true}, {"midpoint", true}}},
          {"Bezier", {{"dim", true}, {"size", true}, {"type", false}, {"orientation", false}}},
          {"SurfaceMesh", {{"verts", true}, {"trias", true}}},
          {"Extrude", {{"origin", false}, {"offset", false}, {"angles", false}}}};
        for(size_t li = 0; li < sm.lines.size(); ++li)
        {
          const Line& L = sm.lines[li];
          if(L.in_info || !(L.kind == Line::open || L.kind == Line::closed) || L.tag == "Info") continue;
          auto dt = decl.find(L.tag);
          const bool known_tag = (dt != decl.end());
          const std::string lno = " of <" + L.tag + "> (line " + itos((long long)li + 1) + ")";
          auto mandatory = [&](const std::string& an) { if(!known_tag) return false; auto a = dt->second.find(an); return a != dt->second.end() && a->second; };
          // text span of an attribute including one adjacent blank
          auto cut = [&](std::string& m, const AttrSpan& a) { size_t b = a.nbeg, e = a.vend + 1; if(b > 0 && m[b - 1] == ' ') --b; else if(e < m.size() && m[e] == ' ') ++e; m.erase(b, e - b); };
          for(size_t ai = 0; ai < L.attrs.size(); ++ai)
          {
            const AttrSpan& a = L.attrs[ai];
            // deletion of one attribute
            if(c.want())
            {
              std::string m = T; cut(m, a);
              sem(std::string("A attribute-deletion ") + (mandatory(a.name) ? "mandatory" : "optional"), m, mandatory(a.name) ? EX_REJECT : EX_ANY, "attribute '" + a.name + "' removed" + lno);
            }
            // deletion of a pair (later one first so that the offsets stay valid)
            for(size_t aj = ai + 1; aj < L.attrs.size(); ++aj)
            {
              if(!c.want()) continue;
              const AttrSpan& b = L.attrs[aj];
              std::string m = T; cut(m, b); cut(m, a);
              const bool mand = mandatory(a.name) || mandatory(b.name);
              sem(std::string("A attribute-pair-deletion ") + (mand ? "mandatory" : "optional"), m, mand ? EX_REJECT : EX_ANY, "attributes '" + a.name + "' and '" + b.name + "' removed" + lno);
            }
            // renamed to an undeclared name sorting before / after all others (alphanumeric: reaches the attribute check;
            // with an underscore: already a syntax error of the scanner)
            for(const char* pre : {"a0", "zz", "a_", "zz_"})
            {
              if(!c.want()) continue;
              std::string m = T; m.insert(a.nbeg, pre);
              sem("A attribute-renamed", m, known_tag ? EX_REJECT : EX_ANY, "attribute '" + a.name + "' renamed to '" + pre + a.name + "'" + lno);
            }
            // the value moved to an undeclared attribute in addition to the declared one
            for(const char* extra : {"a0x", "zzx", "m0x"})
            {
              if(!c.want()) continue;
              std::string m = T; m.insert(a.vend + 1, std::string(" ") + extra + "=\"1\"");
              sem("A attribute-added", m, known_tag ? EX_REJECT : EX_ANY, std::string("undeclared attribute '") + extra + "' added after '" + a.name + "'" + lno);
            }
            // the same attribute given twice (the scanner keeps the first): crash freedom only
            if(c.want())
            {
              std::string m = T; m.insert(a.vend + 1, " " + T.substr(a.nbeg, a.vend + 1 - a.nbeg));
              sem("A attribute-twice", m, EX_ANY, "attribute '" + a.name + "' given twice" + lno);
            }
          }
          // all attributes removed
          if(L.attrs.size() > 2 && c.want())
          {
            std::string m = T;
            bool mand = false;
            for(size_t ai = L.attrs.size(); ai-- > 0;) { cut(m, L.attrs[ai]); mand = mand || mandatory(L.attrs[ai].name); }
            sem(std::string("A attribute-all-deleted ") + (mand ? "mandatory" : "optional"), m, mand ? EX_REJECT : EX_ANY, "all attributes removed" + lno);
          }
          // markups without attributes: an undeclared one added
          if(L.attrs.empty() && c.want())
          {
            std::string m = T; size_t pos = T.find(L.tag, L.beg) + L.tag.size();
            m.insert(pos, " a0x=\"1\"");
            sem("A attribute-added", m, known_tag ? EX_REJECT : EX_ANY, "undeclared attribute added" + lno);
          }
        }
      }
      // ---------------------------------------------------------------- R: parsing INTO a filled node / atlas / partition set
      {
        auto run_seq = [&](const std::string& cls, const std::vector<std::string>& texts, int expect_last /*0 any, 1 must be rejected + unchanged, 2 must be accepted*/, const std::string& what)
        {
          // caller checked c.want()
          if(!g_log.child) c.desc([&]{ return "mesh seed " + sm.name + " | " + cls + " | " + what + " | last text=" + printable(texts.back(), 1500); });
          const std::string key = sm.name + " " + cls;
          dispatch(c, key, "R", [&]{ return what; }, [&](Verdict& r){
            SeqResult sr;
            parse_sequence(sm.default_type, texts, false, true, sr);
            r.parses = int(texts.size());
            r.kind = sr.kinds.back();
            for(size_t i = 0; i < sr.kinds.size(); ++i)
              if(sr.kinds[i] != K_OK && !rejected_cleanly(sr.kinds[i]))
                r.fails.emplace_back(std::string("undocumented exception ") + kind_name(sr.kinds[i]), "step " + itos((long long)i + 1) + " terminated with " + sr.whats[i]);
            if(expect_last == 1)
            {
              if(sr.kinds.back() == K_OK) r.fails.emplace_back("accepted", "a block that already exists in the filled node/atlas was parsed again without error (" + what + ")");
              else if(sr.canons.back() != sr.canons[sr.canons.size() - 2]) r.fails.emplace_back("changed", "the rejected parse modified the filled node/atlas (" + what + ")");
            }
            if(expect_last == 2 && sr.kinds.back() != K_OK)
              r.fails.emplace_back("rejected", std::string("must be accepted (") + what + "): " + kind_name(sr.kinds.back()) + " " + sr.whats.back());
            // the node must still be writable, and what is written must be readable
            Parsed p2 = parse_mesh(sr.written, sm.default_type, true, false);
            if(p2.kind != K_OK) r.fails.emplace_back("rewrite-rejected", std::string("node written after the sequence is rejected: ") + kind_name(p2.kind) + " " + p2.what);
          }, Rekey());
          if(!g_log.child) c.nontrivial(verif::Hash().str("R").str(sm.name).str(cls).str(texts.back()).pod(texts.size()).get());
        };
        const std::string rootline = T.substr(sm.lines[0].beg, sm.lines[0].next - sm.lines[0].beg);
        for(size_t li = 0; li < sm.lines.size(); ++li)
        {
          const Line& L = sm.lines[li];
          if(L.path.size() != 1 || L.tag == "Info" || !(L.kind == Line::closed || (L.kind == Line::open && L.match > int(li)))) continue;
          const size_t b = L.beg, e = (L.kind == Line::closed) ? L.next : sm.lines[size_t(L.match)].next;
          const std::string single = rootline + T.substr(b, e - b) + "</FeatMeshFile>\n";
          const bool dup = (L.tag == "Chart" || L.tag == "Mesh" || L.tag == "MeshPart");
          if(c.want()) run_seq("R block-into-filled <" + L.tag + ">", {T, single}, dup ? 1 : 2, "seed parsed, then a file holding only its <" + L.tag + "> block (line " + itos((long long)li + 1) + ") into the same objects");
          if(c.want()) run_seq("R filled-from-block <" + L.tag + ">", {single, T}, 0, "a file holding only the <" + L.tag + "> block, then the whole seed into the same objects");
          if(c.want()) run_seq("R block-twice <" + L.tag + ">", {single, single}, 0, "a file holding only the <" + L.tag + "> block parsed twice into the same objects");
        }
        // every truncation of the seed as SECOND file into the filled objects
        for(size_t len = 0; len < T.size(); len += (c.thorough ? 1 : 3))
        {
          if(!c.want()) continue;
          run_seq("R truncation-into-filled", {T, T.substr(0, len)}, 0, "seed parsed, then the seed truncated to " + itos((long long)len) + " bytes into the same objects");
        }
      }
      // ---------------------------------------------------------------- S20-S22: content / markup where none belongs, closed vs open form, chart kinds
      for(size_t li = 0; li < sm.lines.size(); ++li)
      {
        const Line& L = sm.lines[li];
        if(L.in_info || L.tag == "Info") continue;
        const std::string lno = " (line " + itos((long long)li + 1) + ")";
        if(L.kind == Line::open)
        {
          // S20: directly after the opening markup of every element
          if(c.want()) sem("S20 content-line-inserted <" + L.tag + ">", T.substr(0, L.next) + "    7 7 7\n" + T.substr(L.next), EX_REJECT, "a content line '7 7 7' as first child of <" + L.tag + ">" + lno);
          if(c.want()) sem("S20 unknown-markup-inserted <" + L.tag + ">", T.substr(0, L.next) + "    <Zzz />\n" + T.substr(L.next), EX_REJECT, "an unknown closed markup <Zzz /> as first child of <" + L.tag + ">" + lno);
          if(c.want()) sem("S20 misplaced-markup-inserted <" + L.tag + ">", T.substr(0, L.next) + "    <Vertices>\n    </Vertices>\n" + T.substr(L.next), EX_REJECT, "an empty <Vertices> element as first child of <" + L.tag + ">" + lno);
          if(c.want()) sem("S20 nested-same-markup <" + L.tag + ">", T.substr(0, L.next) + T.substr(L.beg, L.next - L.beg) + "    </" + L.tag + ">\n" + T.substr(L.next), EX_REJECT, "an empty copy of <" + L.tag + "> as its own first child" + lno);
        }
        if(L.kind == Line::closed)
        {
          // S21: '<X ... />' written as '<X ...>' '</X>'
          std::string ln = T.substr(L.beg, L.end - L.beg);
          size_t sl = ln.rfind('/');
          std::string open = ln.substr(0, sl); while(!open.empty() && open.back() == ' ') open.pop_back(); open += ">";
          const std::string indent = ln.substr(0, ln.find('<'));
          const std::string close = indent + "</" + L.tag + ">";
          if(c.want()) sem("S21 closed-markup-as-pair <" + L.tag + ">", T.substr(0, L.beg) + open + "\n" + close + T.substr(L.end), EX_SAME, "<" + L.tag + " ... /> written as opening and closing markup" + lno);
          if(c.want()) sem("S21 closed-markup-with-content <" + L.tag + ">", T.substr(0, L.beg) + open + "\n" + indent + "  1 2\n" + close + T.substr(L.end), EX_REJECT, "<" + L.tag + "> with a content line" + lno);
          if(c.want()) sem("S21 closed-markup-with-child <" + L.tag + ">", T.substr(0, L.beg) + open + "\n" + indent + "  <Zzz />\n" + close + T.substr(L.end), EX_REJECT, "<" + L.tag + "> with a child markup" + lno);
        }
      }
      {
        // S22: every chart kind in every seed: kinds of the seed's dimension must be accepted, all others refused
        struct CK { const char* kind; int dim; const char* xml; };
        const CK cks[] = {
          {"Circle", 2, "    <Circle radius=\"1\" midpoint=\"0 0\" />\n"},
          {"Bezier", 2, "    <Bezier dim=\"2\" size=\"2\" type=\"open\">\n      <Points>\n        0 0 0\n        0 1 0\n      </Points>\n    </Bezier>\n"},
          {"Sphere", 3, "    <Sphere radius=\"1\" midpoint=\"0 0 0\" />\n"},
          {"SurfaceMesh", 3, "    <SurfaceMesh verts=\"3\" trias=\"1\">\n      <Vertices>\n        0 0 0\n        1 0 0\n        0 1 0\n      </Vertices>\n      <Triangles>\n        0 1 2\n      </Triangles>\n    </SurfaceMesh>\n"},
          {"Extrude", 3, "    <Extrude>\n      <Circle radius=\"1\" midpoint=\"0 0\" />\n    </Extrude>\n"},
          {"ExtrudeBezier", 3, "    <Extrude offset=\"0 0 1\">\n      <Bezier dim=\"2\" size=\"2\" type=\"open\">\n        <Points>\n          0 0 0\n          0 1 0\n        </Points>\n      </Bezier>\n    </Extrude>\n"},
          {"Extrude(Sphere)", 0, "    <Extrude>\n      <Sphere radius=\"1\" midpoint=\"0 0 0\" />\n    </Extrude>\n"}};
        const size_t at = sm.lines[0].next;
        for(auto& ck : cks)
        {
          if(!c.want()) continue;
          const bool legal = (ck.dim == sdim);
          sem(std::string("S22 chart-kind ") + ck.kind + (legal ? " legal" : " illegal"), T.substr(0, at) + "  <Chart name=\"zz:cov\">\n" + ck.xml + "  </Chart>\n" + T.substr(at), legal ? EX_ACCEPT : EX_REJECT,
            std::string("a <") + ck.kind + "> chart added to a file of dimension " + itos(sdim));
        }
      }
      // ---------------------------------------------------------------- S19: comment lines
      for(size_t li = 0; li < sm.lines.size(); ++li)
      {
        const Line& L = sm.lines[li];
        const std::string lno = " (after line " + itos((long long)li + 1) + ")";
        if(L.next >= T.size() && L.kind == Line::close) continue; // nothing is read after the root terminator
        if(L.kind == Line::close && L.path.empty()) continue;
        // a well-formed comment line may stand anywhere after the root markup and is ignored
        if(c.want()) sem("S19 comment-inserted", T.substr(0, L.next) + "  <!-- a comment with <markup> = \"text\" 1 2 3 -->\n" + T.substr(L.next), EX_SAME, "well-formed comment line inserted" + lno);
        // a comment without terminator is a syntax error
        if(c.want()) sem("S19 comment-unterminated", T.substr(0, L.next) + "  <!-- a comment without end\n" + T.substr(L.next), EX_REJECT, "unterminated comment line inserted" + lno);
        if(c.want()) sem("S19 comment-unterminated", T.substr(0, L.next) + "  <!-- a comment without end --\n" + T.substr(L.next), EX_REJECT, "comment line ending in '--' inserted" + lno);
      }
      // ---------------------------------------------------------------- S11: element blocks deleted / duplicated
      for(size_t li = 0; li < sm.lines.size(); ++li)
      {
        const Line& L = sm.lines[li];
        if(L.in_info || L.path.empty()) continue;          // not the root itself
        if(!(L.kind == Line::closed || (L.kind == Line::open && L.match > int(li)))) continue;
        const size_t b = L.beg, e = (L.kind == Line::closed) ? L.next : sm.lines[size_t(L.match)].next;
        const std::string par = sm.parent(L);
        const std::string lno = " (lines " + itos((long long)li + 1) + "-" + itos((long long)(L.kind == Line::closed ? li : size_t(L.match)) + 1) + ")";
        // deletion
        Expect exd = EX_ANY;
        if(L.tag == "Vertices" || L.tag == "Triangles" || L.tag == "Points") exd = EX_REJECT;
        if(L.tag == "Topology" && par == "Mesh") exd = EX_REJECT;
        if(L.tag == "Topology" && par == "MeshPart") exd = EX_REJECT;   // seeds with explicit part topology declare it as 'full'
        if(L.tag == "Mapping") exd = EX_REJECT;                          // all seed mappings are non-empty
        if(L.tag == "Circle" || L.tag == "Sphere" || L.tag == "Bezier" || L.tag == "SurfaceMesh" || L.tag == "Extrude") exd = EX_REJECT; // leaves an empty parent
        if(L.tag == "Mesh" && has_parent_topo) exd = EX_REJECT;
        if(L.tag == "Chart") { auto* n = sm.attr(L, "name"); if(n && chart_refs.count(n->value)) exd = EX_REJECT; }
        const int reason = (L.tag == "Points" || L.tag == "Params") && par == "Bezier" ? 5 : 0;
        if(c.want()) sem("S11 block-deletion <" + L.tag + ">", T.substr(0, b) + T.substr(e), exd, "element <" + L.tag + "> removed" + lno, reason);
        // duplication
        Expect exu = EX_ANY;
        if(L.tag == "Mesh" || L.tag == "Mapping" || L.tag == "MeshPart" || L.tag == "Chart") exu = EX_REJECT;
        if((L.tag == "Vertices" || L.tag == "Topology") && (par == "Mesh" || par == "MeshPart")) exu = EX_REJECT;
        if(c.want()) sem("S11 block-duplication <" + L.tag + ">", T.substr(0, e) + T.substr(b, e - b) + T.substr(e), exu, "element <" + L.tag + "> present twice" + lno, reason);
        // moved to the end of the root (order independence is not required; crash freedom is)
        if(par == "FeatMeshFile" && e < sm.lines[sm.lines.size() - 1].beg)
        {
          const size_t rb = sm.lines.back().kind == Line::close ? sm.lines.back().beg : T.size();
          if(c.want()) sem("S11 block-moved-to-end <" + L.tag + ">", T.substr(0, b) + T.substr(e, rb - e) + T.substr(b, e - b) + T.substr(rb), EX_ANY, "element <" + L.tag + "> moved to the end of the file" + lno);
        }
      }
    }

    // ------------------------------------------------------------------ D2 (thorough): pairs of substitutions on the smallest seed
    if(c.thorough)
    {
      const SeedModel& sm = seeds.front();
      const std::string& T = sm.text;
      const std::string a2 = "<\" 0";
      for(size_t i = 0; i < T.size() && !c.cut(); ++i)
        for(size_t j = i + 1; j < T.size(); ++j)
          for(char ci : a2)
          {
            if(ci == T[i]) continue;
            for(char cj : a2)
            {
              if(cj == T[j]) continue;
              if(!c.want()) continue;
              std::string m = T; m[i] = ci; m[j] = cj;
              run_mesh(c, sm, "D2", "byte-substitution-pair", m, EX_ANY, [&]{ char b[96]; snprintf(b, sizeof b, "bytes %zu,%zu -> 0x%02x,0x%02x", i, j, (unsigned char)ci, (unsigned char)cj); return std::string(b); });
            }
          }
    }

    // ------------------------------------------------------------------ INI seeds
    for(auto& ini : inis)
    {
      const std::string& T = ini.second;
      if(c.want() && !g_log.child)
      {
        c.desc([&]{ return "ini seed " + ini.first + " unmodified"; });
        ParsedIni p = parse_ini(T);
        c.check(p.kind == K_OK, "ini:" + ini.first + " seed :: rejected", [&]{ return p.what; });
        c.nontrivial(verif::Hash().str("iniseed").str(ini.first).get());
      }
      for(size_t len = 0; len < T.size(); ++len)
      {
        if(!c.want()) continue;
        run_ini(c, ini.first, T, "T", "truncation", T.substr(0, len), [&]{ return "truncated to " + itos((long long)len) + " bytes"; });
      }
      for(size_t pos = 0; pos < T.size(); ++pos)
      {
        for(char ch : ialphabet)
        {
          if(ch == T[pos]) continue;
          if(!c.want()) continue;
          std::string m = T; m[pos] = ch;
          run_ini(c, ini.first, T, "B", "byte-substitution", m, [&]{ char b[64]; snprintf(b, sizeof b, "byte %zu -> 0x%02x", pos, (unsigned char)ch); return std::string(b); });
        }
        for(char ch : std::string("#=[{}&\n"))
        {
          if(!c.want()) continue;
          std::string m = T; m.insert(pos, 1, ch);
          run_ini(c, ini.first, T, "B", "byte-insertion", m, [&]{ char b[64]; snprintf(b, sizeof b, "byte 0x%02x inserted at %zu", (unsigned char)ch, pos); return std::string(b); });
        }
        if(!c.want()) continue;
        std::string m = T; m.erase(pos, 1);
        run_ini(c, ini.first, T, "B", "byte-deletion", m, [&]{ return "byte " + itos((long long)pos) + " deleted"; });
      }
      // lines
      {
        std::vector<std::pair<size_t, size_t>> ls; size_t p = 0;
        while(p < T.size()) { size_t q = T.find('\n', p); size_t n = (q == std::string::npos) ? T.size() : q + 1; ls.emplace_back(p, n); p = n; }
        for(size_t i = 0; i < ls.size(); ++i)
        {
          if(c.want()) run_ini(c, ini.first, T, "L", "line-deletion", T.substr(0, ls[i].first) + T.substr(ls[i].second), [&]{ return "line " + itos((long long)i + 1) + " deleted"; });
          if(c.want()) run_ini(c, ini.first, T, "L", "line-duplication", T.substr(0, ls[i].second) + T.substr(ls[i].first, ls[i].second - ls[i].first) + T.substr(ls[i].second), [&]{ return "line " + itos((long long)i + 1) + " duplicated"; });
          for(size_t j = i + 1; j < ls.size(); ++j)
          {
            if(!c.want()) continue;
            // swap lines i and j
            std::string m = T.substr(0, ls[i].first) + T.substr(ls[j].first, ls[j].second - ls[j].first) + T.substr(ls[i].second, ls[j].first - ls[i].second) + T.substr(ls[i].first, ls[i].second - ls[i].first) + T.substr(ls[j].second);
            run_ini(c, ini.first, T, "L", "line-swap", m, [&]{ return "lines " + itos((long long)i + 1) + " and " + itos((long long)j + 1) + " swapped"; });
          }
        }
      }
    }
    // ------------------------------------------------------------------ X: Xml::Scanner attribute grammar
    {
      const char* names[4] = {"a", "b", "c", "d"};
      for(int level = 0; level < 2; ++level)            // 0: the root markup, 1: a child markup
        for(int dm = 0; dm < 81; ++dm)                  // every name: 0 undeclared, 1 optional, 2 mandatory
          for(int gm = 0; gm < 16; ++gm)                // given subset
          {
            if(!c.want()) continue;
            std::map<String, bool> decl; std::string ds, gs, tag;
            bool expect_ok = true;
            { int t = dm; for(int k = 0; k < 4; ++k) { int st = t % 3; t /= 3; if(st) decl[names[k]] = (st == 2); ds += (st == 0 ? '-' : st == 1 ? 'o' : 'M');
                const bool given = ((gm >> k) & 1) != 0;
                if(given) { gs += names[k]; tag += std::string(" ") + names[k] + "=\"v" + names[k] + "\""; }
                if(given && st == 0) expect_ok = false;
                if(!given && st == 2) expect_ok = false; } }
            const std::string text = (level == 0) ? ("<Root" + tag + ">\n</Root>\n") : ("<Root>\n  <Child" + tag + " />\n  <Child" + tag + ">\n  </Child>\n</Root>\n");
            const std::string key = std::string("scanner-grammar ") + (level == 0 ? "root" : "child") + " declared=" + ds + " given={" + gs + "}";
            if(!g_log.child) c.desc([&]{ return key + " | text=" + printable(text); });
            dispatch(c, key, "X", [&]{ return key; }, [&](Verdict& r){
              ProbeLog log;
              bool ok = false; std::string what;
              try { std::istringstream iss(text); Xml::Scanner scanner(iss); scanner.scan(std::make_shared<GrammarProbe>(level == 0 ? decl : std::map<String, bool>(), decl, log)); ok = true; r.kind = K_OK; }
              catch(const Xml::GrammarError& e) { r.kind = K_GRAMMAR; what = e.what(); }
              catch(const Xml::Error& e) { r.kind = K_SYNTAX; what = e.what(); }
              catch(const std::exception& e) { r.kind = K_STD_OTHER; what = e.what(); }
              r.parses = 1;
              if(expect_ok && !ok) r.fails.emplace_back("rejected", "all given attributes are declared and all mandatory ones are given, but the scanner refused: " + what);
              if(!expect_ok && ok) r.fails.emplace_back("accepted", "an undeclared attribute is given or a mandatory one is missing, but the scanner accepted the markup");
              if(!expect_ok && !ok && r.kind != K_GRAMMAR) r.fails.emplace_back(std::string("wrong exception ") + kind_name(Kind(r.kind)), "expected Xml::GrammarError: " + what);
              if(expect_ok && ok)
              {
                // the parser must have received exactly the given attributes with their values
                const size_t want_n = (level == 0 ? 1u : 3u);
                bool good = (log.created.size() == want_n);
                for(size_t i = (level == 0 ? 0u : 1u); good && i < log.created.size(); ++i)
                {
                  size_t cnt = 0;
                  for(int k = 0; k < 4; ++k) if((gm >> k) & 1) { auto f = log.created[i].find(names[k]); good = good && f != log.created[i].end() && f->second == String("v") + names[k]; ++cnt; }
                  good = good && log.created[i].size() == cnt;
                }
                if(!good) r.fails.emplace_back("attributes", "the parser's create() did not receive exactly the given attributes");
              }
            }, Rekey());
            if(!g_log.child) c.nontrivial(verif::Hash().str("X").pod(level).pod(dm).pod(gm).get());
          }
    }
    if(g_log.child) { fflush(stdout); VERIF_COV_DUMP(); _exit(0); }
    if(!g_log.errfile.empty()) unlink(g_log.errfile.c_str());
  });
}
