#!/usr/bin/env python3
"""Regenerates section 9.7 of DESIGN.md from seeded/*/meta.json"""
import json,glob,os,re
rows=[]; missed_first=[]; n=0; nd=0
for d in sorted(glob.glob('/verif/seeded/*/meta.json')):
    m=json.load(open(d)); n+=1
    patch=open(os.path.dirname(d)+'/patch.diff').read()
    files=sorted(set(l[6:] for l in patch.splitlines() if l.startswith('+++ b/')))
    need=m['needs_to_manifest']
    first_missed=('MISSED at first' in need) or ('initially MISSED' in need) or ('MISSED by' in need)
    short=re.split(r' - MISSED| \(initially MISSED| \(MISSED',need)[0]
    det=m['detected_by']['exit']==1; nd+=det
    res=("detected" if det else "MISSED")+(" (after a harness extension)" if (first_missed and det) else "")
    if first_missed: missed_first.append(m['seed'])
    rows.append("| %s | %s | `%s` | %s | %s |"%(m['seed'],m['breaks_property'],", ".join(f.replace('kernel/','') for f in files),short,res))
tbl="| seed | property | changed file (kernel/) | needs to manifest | `./vf check <property>` |\n|---|---|---|---|---|\n"+"\n".join(rows)
txt="""### 9.7 Which checks catch which changes

**(a) Independently seeded changes (`seeded/<id>/`).** Each was written by a fresh sub-agent that was given only the text of one
property (plus, from the second round on, a one-line hint which *area* of the anchored code to choose - in the fourth round: which files
earlier rounds had already used - so that the changes spread over the code) and its own git worktree of the repository - nothing from /verif - and asked for a change that breaks the property, still
compiles and passes the repository's unit tests, and needs something specific to manifest. Every change was confirmed by
`tools_seedcheck.sh` before it was kept: the patch applies, the named unit tests build and pass with it in a separate validation build
of the repository (`/var/tmp/mutwt`, own cmake build; MPI seeds: the seed author's MPI build + `mpirun`), the demonstration program
exits 0 without and non-zero with the change; then `./vf check <property> --tier quick` was run on a scratch copy of /repo with the patch
(`VERIF_REPO`; such runs write their record under `build/`, never to `evidence/`), and `meta.json` records what was run and what the
check reported. No seeded change was ever committed to /repo. **%d seeded changes, %d detected by the committed checks.**

%s

%d of them (%s) were **missed at first**; each miss was turned into a stronger check (the unchanged tree stays silent), and the
pattern behind each miss was then applied proactively to all harnesses (section "Lessons" in `engine/HARNESS_GUIDE.md`):
* *Hidden state behind the BFS key* (C08c): the preconditioner life-cycle BFS deduplicated on the implementation state, in which `apply`
  leaves no trace for correct code, so `apply -> update -> init_numeric -> apply` was pruned; the key now carries "applied since
  init_symbolic / init_numeric" bits (72 instead of 15 life-cycle states).
* *Re-invocation on existing objects* (C02, C16c): transpose into an existing target that shares index arrays with a bystander; GPDV
  assembly into non-empty matrices. `c02_convert` got a relatives / target-reuse phase (which also found the genuine in-place `permute`
  defect, fixed in 9ad723b83); `c16_history` runs every assembly entry point as fresh / refill / marker histories against a documented
  accumulate-or-format classification.
* *Derived objects* (C02b, C18c): cross-type weak clones, converted `LAFEM::Transfer` objects - every copy-like operation is now followed
  by the complete identity set on the derived object.
* *First observation* (C04b): sparse-vector reductions before the lazy sort; every observation is now also the first access after a
  replayed history.
* *Value alphabets / parameter families* (C05c, C11c, C18): extreme magnitudes with both signs in text modes, chart parameter grids
  incl. both gimbal-lock branches, unit/zero/locally supported vectors for the matrix-free prolongation.
* *Orders* (C13c, C12c): scrambled patch numberings so that mirror index arrays are not ascending; nine mesh parts in rotated name
  orders so that dimension-empty parts follow rich ones through the shared splitter.
* *Faults a byte cannot produce* (C11b): attribute deletion / rename / duplication classes and a scanner-level grammar enumeration.
* *Configurations excluded too generously* (C16b): streamline-diffusion Burgers configurations were excluded from the integral oracle and,
  wrongly, also from the route comparison.
* *Anchored code that no harness reached* (round d: C08d, C18d, C03d, C16d, C02d): AmaVanka/Vanka/Uzawa/Schwarz, the control-level
  `asm_transfer_*`, `DenseMatrix::multiply/transpose` and symbolic assembly on permuted meshes were named by the anchors but not
  driven. New harnesses `c08_amavanka`, `c08_vanka`, `c08_uzawa`, `c18_asm`, `c16_pattern(3d)` and extensions of `c03_algebra` /
  `c02_convert`; `tools_cov.py` (a gcov audit of the anchor files per property, not a deciding step) now lists what no harness executes.
* *Self-aliasing and block-shape alphabets* (C02d, C01d): `x.op(x)` for every target-writing operation; composed matrices whose block
  dimensions are pairwise different so that no two slice offsets coincide.
* *Failure paths under every schedule* (C17d): `c17_sched` injects one throwing task operation at every position.
* *Grown objects* (C20d): containers after one or two re-allocations, followed by the whole copy alphabet.
* C19b additionally exposed a machinery gap: the change makes `calc_swap_from_perm` loop forever and the first confirmation run hung for
  an hour. The runner got a per-case **watchdog** (a worker that stays in one case beyond `case_timeout_s` without a heartbeat is killed,
  the case is re-run alone under an alarm and reported with key `hang`).

**(b) Mutants of the harness authors** (each applied in a scratch copy `/var/tmp/feat3-mut.*`, check pointed at it with `VERIF_REPO`,
copy removed afterwards). Counts: C01 14/15 caught (the miss is an equivalent mutant: `offsets[k] < rows` in the banded start search
only bounds a loop over empty ranges), C02 10/11 (+ equivalent `coffsets[k]+1 <= crows`), C03 15/15, C04 19/19, C05 14/16 at first,
16/16 after adding the independent buffer decoder and an upper-bound size estimate, C06 16/16, C07 21/24 (3 equivalent w.r.t. the
property), C08 12/12, C09 17/18 against `c09_cycle` (the miss - a redundant `filter_cor` - is equivalent under the solver contract),
C10 12/12, C11 faults 6/6 (one after adding the comment fault class) and round trip 7/7, C12 11/11, C13 12/12 (M3 "send buffer
reused before completion" only in rendezvous mode, as intended; T2-M1 "muxer child offset" only in multi-layered cases),
C14 12/12, C15 9/9, C16 10/10, C17 4/5 (the miss, "minimum 2 -> 1 layers per thread", does not break the property: the fence protocol
merely serialises more; it is what made me drop the static-invariant check), C18 9/10 (+ equivalent: `invert_matrix` without pivot search
on SPD local mass matrices), C19 6/6, C20 7/7. Scheduler-based checks:
  - C17 `c17_sched`: layered worker without `fence.wait()` -> concurrent scatter on adjacent cells, found at PB 1 (not at PB 0), schedule
    `0,0,0,0,0,0,1,0,0,0,0,0`; `ThreadFence::wait` with `if` instead of `while` -> found with one spurious wake-up; coloured protocol without
    the second barrier -> deadlock; fence opened before the scatter -> PB 1. The free-running TSan build reports the first mutant as a data
    race in every affected configuration. Seeded: unlocked `combine()` in the coloured strategy (C17), worker fences not closed between
    jobs (C17b, needs a second `assemble()`), idle worker skipping a colour's fence handshake (C17c: deadlock, found as `deadlock colored`).
  - C13: M1-M8, T2-M1/2 and two mutants of the MPI model itself (caught by `c13_minimpi_selftest`); seeded: early scatter of a
    neighbour's message while still packing for a later neighbour (C13), gate frequencies 2^k (C13b), blocked matrix mirror merge cursor (C13c).

**(c) The lessons round.** After the third seeding round the eight patterns behind the misses (hidden state behind a dedup key,
re-invocation on existing objects, derived objects, value alphabets, orders, first observation, unusual overloads, hangs - section
"Lessons" of `engine/HARNESS_GUIDE.md`) were applied to *every* harness, not only to the one that had missed, and every addition was
validated by a fresh mutant in a scratch copy (about 95 further mutants, all caught; those that only the new part catches are named in
the harness sources). What this added, per property: C01 second invocation into the filled result, counterpart-first histories,
clones/moved/index-converted matrices, sub-range vector views with guard entries, all-negative and extreme alphabets; C02 MemoryPool
bookkeeping (`_scalar_dt`, reference counts, pool empty at the end) in the BFS key, derived-object phase, by-value overloads; C03 every
operation twice on the same objects, weak-clone targets with bystanders; C04 second invocation with rewritten operands, derived
operands, u32 index kinds; C05 reads into filled targets with shallow-clone bystanders, reversed MatrixMarket entry order, first access
on unsorted sparse vectors, model history bits in the checkpoint BFS key; C06 the filter operation as *first* access to a fresh filter
(the snapshot used to sort it), derived/pre-used filters, u32; C07 in-place matrix value updates between done_numeric/init_numeric;
C09 re-initialisation histories with replaced operator values, bystander MultiGrid on the same hierarchy, user-defined level class,
negative coarse-level form; C10/C12 re-invocation, clones, scrambled orders, 1D meshes, recursive 3-parent partitions; C11 parsing into
filled node/atlas/partition sets (class R), block permutations and file splits, PropertyMap read-into/merge, %%g switch points and
denormals; C13 several tickets in flight waited out of order, derived gates, alpha alphabet, empty mirrors, Splitter/Muxer with
non-ascending mirrors, descending neighbour order; C14 create into filled rules, clones/moves, float rules, scalar factory; C15 one
evaluator / node-functional object reused over cells in reversed, doubled and special-first orders, single-tag configurations; C16
bystander layout clones, alpha alphabet {0,1,-1,0.5} on marker-filled targets, element/facet orders and complementary subsets; C18
re-assembly into marked weak clones, weight-vector and cubature-name overloads, meshes scaled by 2^+-30; C19 self-aliasing
(`p.concat(p)`, `g.compose(g)`, `Graph(rt,g,g)`), renders from moved/deserialised graphs, scrambled adjacency order; C20 no-op
transitions kept one more level, accessors as first access, raw-pointer co-owner constructor. The round found four more genuine defects
(all repaired): `sync_X_async().wait()` on a gate without neighbours (C13), RGCR recycled directions surviving `init_numeric` (C07),
`Permutation::concat` and `DynamicGraph::compose` with the object itself (C19).

**(d) The coverage round.** After the fourth seeding round `tools_cov.py` (gcov builds of the harnesses, quick tier; an audit, not a
deciding step) listed for every property the functions of its anchor files that were compiled but never executed and the statement
blocks no harness instantiates. Every entry was either covered by an extended or new harness (again validated by fresh mutants, about
110 in this round, all caught - several only after the harness author noticed that the first version of the new check could not see
its own mutant) or named as an exclusion in the harness `spec.assumptions` (printing, statistics, CUDA/MKL back ends, zlib/zfp
paths, MPI-only branches outside C13, members that do not compile). New binaries of this round: `c12_control`.mpi, `c13_transfer`.mpi,
`c16_jobs`, `c16_scatter`, `c18_intermesh`. Compiled-but-unexecuted functions in the anchor files after the round: C01 9 (float
instantiations of destructors / move operators and the abort-only banded transposed kernel), C02 0, C03 0, C04 0, C05 2 (inlined
setter, forked probe), C06 1, C07 printing only, C09 0, C11 26 (destructor artefacts and listed exclusions), C13 0, C14 0, C19 0,
C20 0. Genuine defects found by the round and repaired: `GridTransfer::transfer_intermesh_vector` (C18), the adjactor interface of
`SparseMatrixBanded` for non-square matrices (C02); everything else the round turned up is in code no input of a listed property
reaches and is recorded as an observation in 9.5 (and was first a false alarm, see 9.6).
"""%(n,nd,tbl,len(missed_first),", ".join(missed_first))
s=open('/verif/DESIGN.md').read()
s=s[:s.index('### 9.7')].rstrip()+"\n\n"+txt
open('/verif/DESIGN.md','w').write(s)
print(n,"seeds,",nd,"detected;",len(missed_first),"missed at first")
