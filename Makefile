# Build of the verification harnesses against the *working tree* of the repository under test.
# Nothing is linked from $(REPO)/_build: the few non-header kernel sources are compiled here, with
# dependency files, so that any edit under $(REPO) triggers exactly the rebuilds it needs.
#
#   make REPO=/repo bin/<harness>.<variant>
#
# variants: plain (g++ -O1), asan (g++ ASan+UBSan), omp (g++ -fopenmp), mpi (g++ + minimpi + vsched),
#           vs (g++ + vsched pthread interposition), tsan (clang++ -fsanitize=thread, free running),
#           rmpi (mpicxx against the real <mpi.h>: only harness/c13_real.cpp, the OpenMPI cross-run of C13)
REPO ?= /repo
ROOT := $(abspath $(dir $(lastword $(MAKEFILE_LIST))))
TAG  := $(shell printf '%s' '$(REPO)' | md5sum | cut -c1-8)
B    := $(ROOT)/build/$(TAG)

CXX_GNU   := g++
CXX_CLANG := clang++
COMMON := -std=c++17 -I$(B)/cfg -I$(REPO) -I$(ROOT)/engine -I$(ROOT)/harness -MMD -MP -pthread -fno-access-control -Wno-deprecated-declarations

CXX_plain := $(CXX_GNU)
CXX_asan  := $(CXX_GNU)
CXX_omp   := $(CXX_GNU)
CXX_mpi   := $(CXX_GNU)
CXX_vs    := $(CXX_GNU)
CXX_tsan  := $(CXX_CLANG)
CXX_rmpi  := mpicxx
CXX_cov   := $(CXX_GNU)
CXX_covmpi := $(CXX_GNU)

FLAGS_plain := -O1 -g0
FLAGS_asan  := -O1 -g1 -fsanitize=address,undefined -fno-sanitize=nonnull-attribute,null -fno-sanitize-recover=all -fno-omit-frame-pointer -DVERIF_ASAN
FLAGS_omp   := -O1 -g0 -fopenmp -DVERIF_WITH_OMP
FLAGS_mpi   := -O1 -g0 -DVERIF_WITH_MPI -I$(ROOT)/engine/minimpi
FLAGS_vs    := -O1 -g0 -DVERIF_VSCHED
FLAGS_tsan  := -O1 -g1 -fsanitize=thread -DVERIF_TSAN
FLAGS_rmpi  := -O1 -g0 -DVERIF_WITH_MPI -DVERIF_REAL_MPI
# coverage audit builds (tools_cov.py): not registered as checks
FLAGS_cov   := -O1 -g0 --coverage -DVERIF_COV
FLAGS_covmpi := -O1 -g0 --coverage -DVERIF_COV -DVERIF_WITH_MPI -I$(ROOT)/engine/minimpi

LIBS_plain :=
LIBS_asan  := -fsanitize=address,undefined
LIBS_omp   := -fopenmp
LIBS_mpi   := $(B)/mpi/e/minimpi.o $(B)/mpi/e/vsched.o $(B)/mpi/e/vsched_pthread.o
LIBS_vs    := $(B)/vs/e/vsched.o $(B)/vs/e/vsched_pthread.o
LIBS_tsan  := -fsanitize=thread
LIBS_rmpi  :=
LIBS_cov   := --coverage
LIBS_covmpi := $(B)/covmpi/e/minimpi.o $(B)/covmpi/e/vsched.o $(B)/covmpi/e/vsched_pthread.o --coverage

KSRC := kernel/adjacency/coloring.cpp kernel/adjacency/graph.cpp kernel/adjacency/cuthill_mckee.cpp \
        kernel/adjacency/permutation.cpp kernel/util/memory_pool.cpp kernel/util/property_map.cpp \
        kernel/util/dist_file_io.cpp kernel/util/xml_scanner.cpp kernel/util/statistics.cpp kernel/util/dist.cpp \
        kernel/util/kahan_summation.cpp kernel/backend.cpp kernel/runtime.cpp \
        kernel/voxel_assembly/arch/defo_assembler.cpp kernel/voxel_assembly/arch/poisson_assembler.cpp \
        kernel/voxel_assembly/arch/burgers_assembler.cpp \
        kernel/geometry/test_aux/index_calculator_meshes.cpp kernel/geometry/test_aux/standard_hexa.cpp \
        kernel/geometry/test_aux/standard_quad.cpp kernel/geometry/test_aux/standard_tetra.cpp \
        kernel/geometry/test_aux/standard_tria.cpp kernel/geometry/test_aux/tetris_hexa.cpp \
        kernel/geometry/test_aux/tetris_quad.cpp kernel/geometry/test_aux/validate_structured_meshes.cpp

VARIANTS := plain asan omp mpi vs tsan rmpi cov covmpi

.SECONDARY:
.PHONY: cfg all clean
.DELETE_ON_ERROR:

cfg: $(B)/cfg/feat_config.hpp

$(B)/cfg/feat_config.hpp: $(REPO)/feat_config.hpp.in $(ROOT)/engine/gen_config.py
	@mkdir -p $(B)/cfg
	python3 $(ROOT)/engine/gen_config.py $(REPO) $@

define VARIANT_RULES
KOBJ_$(1) := $$(patsubst %.cpp,$(B)/$(1)/k/%.o,$(KSRC))

$(B)/$(1)/k/%.o: $(REPO)/%.cpp $(B)/cfg/feat_config.hpp
	@mkdir -p $$(dir $$@)
	$$(CXX_$(1)) $(COMMON) $$(FLAGS_$(1)) -c $$< -o $$@

$(B)/$(1)/libk.a: $$(KOBJ_$(1))
	@rm -f $$@
	ar rcs $$@ $$^

$(B)/$(1)/h/%.o: $(ROOT)/harness/%.cpp $(B)/cfg/feat_config.hpp
	@mkdir -p $$(dir $$@)
	$$(CXX_$(1)) $(COMMON) $$(FLAGS_$(1)) -c $$< -o $$@

$(B)/$(1)/e/%.o: $(ROOT)/engine/%.cpp
	@mkdir -p $$(dir $$@)
	$$(CXX_$(1)) $(COMMON) $$(FLAGS_$(1)) -c $$< -o $$@

$(B)/$(1)/e/%.o: $(ROOT)/engine/minimpi/%.cpp
	@mkdir -p $$(dir $$@)
	$$(CXX_$(1)) $(COMMON) $$(FLAGS_$(1)) -c $$< -o $$@

$(B)/bin/%.$(1): $(B)/$(1)/h/%.o $(B)/$(1)/libk.a $$(filter %.o,$$(LIBS_$(1)))
	@mkdir -p $$(dir $$@)
	$$(CXX_$(1)) -o $$@ $$< $$(filter %.o,$$(LIBS_$(1))) $(B)/$(1)/libk.a $$(filter-out %.o,$$(LIBS_$(1))) -pthread
endef
$(foreach v,$(VARIANTS),$(eval $(call VARIANT_RULES,$(v))))

# the scheduler TU must stay uninstrumented in every variant
$(B)/tsan/e/vsched.o: $(ROOT)/engine/vsched.cpp
	@mkdir -p $(dir $@)
	$(CXX_CLANG) $(COMMON) -O1 -g1 -c $< -o $@

clean:
	rm -rf $(B)

-include $(shell find $(B) -name '*.d' 2>/dev/null)
