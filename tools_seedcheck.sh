#!/bin/bash
# tools_seedcheck.sh <seed-name> <property> "<unit test targets>"  [seed source dir]
# Confirms a seeded change: (1) it applies, the named unit tests build and pass with it in the validation worktree /var/tmp/mutwt,
# (2) the demonstration fails with it and passes without it, (3) runs ./vf check <property> on a scratch copy of /repo with the change.
set -u
NAME=$1; PROP=$2; TESTS=$3; SRC=${4:-/tmp/seedwt/$NAME/SEED}
OUT=/verif/seeded/$NAME; mkdir -p $OUT
cp $SRC/patch.diff $OUT/patch.diff; cp $SRC/demo.cpp $OUT/ 2>/dev/null; cp $SRC/NOTES.md $OUT/ 2>/dev/null; cp $SRC/build.sh $OUT/ 2>/dev/null
WT=/var/tmp/mutwt; LOG=$OUT/confirm.log; : > $LOG
cd $WT && git checkout -q -- . && git apply --check $OUT/patch.diff || { echo "patch does not apply" | tee -a $LOG; exit 2; }
demo() { # $1 label
  g++ -std=c++17 -O1 -fopenmp -I$WT -I$WT/_build $OUT/demo.cpp -Wl,--start-group $(find $WT/_build/kernel -name '*.a') -Wl,--end-group -o /var/tmp/seed_demo >> $LOG 2>&1 || { echo "demo($1) build failed" >> $LOG; return 99; }
  (cd /var/tmp && timeout 600 ./seed_demo > /var/tmp/seed_demo.out 2>&1); rc=$?; echo "demo($1) exit=$rc" >> $LOG; tail -3 /var/tmp/seed_demo.out >> $LOG; return $rc
}
demo clean; RC_CLEAN=$?
git apply $OUT/patch.diff
# rebuild kernel libs (a changed .cpp) and the named tests
nice ninja -C $WT/_build -j12 $(for t in $TESTS; do echo $t; done) kernel/all >> $LOG 2>&1 || echo "build with change FAILED" >> $LOG
TEST_OK=1
for t in $TESTS; do r=$(ctest --test-dir $WT/_build -R "^${t}_all\$" 2>&1 | grep -E "Passed|Failed|No tests"); echo "unit test $t: $r" >> $LOG; echo "$r" | grep -q Passed || TEST_OK=0; done
demo changed; RC_CHG=$?
git checkout -q -- .
nice ninja -C $WT/_build -j12 $(for t in $TESTS; do echo $t; done) kernel/all >> $LOG 2>&1
# the checks of /verif against a scratch copy with the change
SC=/var/tmp/feat3-seed.$NAME; rsync -a --delete --exclude _build --exclude .git /repo/ $SC/; (cd $SC && patch -s -p1 < $OUT/patch.diff)
cd /verif; VERIF_REPO=$SC ./vf check $PROP --tier quick > $OUT/check_quick.log 2>&1; RC_CHECK=$?
NV=$(grep -c "^VIOLATION" $OUT/check_quick.log)
TAG=$(printf %s $SC | md5sum | cut -c1-8); rm -rf $SC /verif/build/$TAG /verif/replays/$PROP
echo "seed=$NAME property=$PROP demo_clean_exit=$RC_CLEAN demo_changed_exit=$RC_CHG unit_tests_pass=$TEST_OK check_exit=$RC_CHECK violations=$NV" | tee -a $LOG
